package main

import (
	"fmt"
	"go/ast"
	"go/constant"
	"go/parser"
	"go/token"
	"go/types"
	"os"
	"path/filepath"
	"regexp"
	"strings"

	"golang.org/x/tools/go/ssa"
)

func init() {
	register(&propCheck{
		id: "C01",
		explain: "Decides the agreement clauses behind 'obfuscated builds behave like regular builds' — the places where garble renames something outside Go syntax must agree with the single naming decision: " +
			"(R01.1) hash funnel: every obfuscated name is produced by hashWithCustomSalt through its three wrappers; " +
			"(R01.2) intrinsic agreement: the four sites that rename a symbol of a listed package outside the syntax tree (assembly, directive local names, linkname targets, the function arm of the naming decision) test compilerIntrinsics[path][name] on the values they rename; " +
			"(R01.3) import paths have one source: only obfuscatedImportPath, obfuscatedSourceDir and reverse hash a package's ImportPath, and every emitter (-p for compile and asm, importcfg lines, import specs, linkname and cgo directives, -X) takes the path from obfuscatedImportPath; " +
			"(R01.4) linker and garble agree: the environment variables exported by internal/linker are the ones the embedded patches read, they are set before the linker runs, the entry-offset formula has the same operator tree on both sides, and the anchors garble patches exist in the pinned toolchain's sources; " +
			"(R01.5) every documented 'keep the name' exception is still present; (R01.6) each -X value naming a listed package is duplicated with obfuscated path and name; " +
			"(R01.7) package provenance: a qualified name is hashed with the package obtained by looking its path up, and both the name and the path of one symbol use the same package value; " +
			"(R01.8) -X arguments are split where cmd/link splits them (last dot before '='), in both of garble's parsers. " +
			"Does not decide that renaming is consistent for every syntactic shape, nor that a garbled program compiles, runs and prints the same.",
		perConfig: checkC01,
		once:      checkC01goroot,
	})
}

func intrinsicFact(w *World, at ssa.Instruction, wantOutcome bool) (ssa.Value, ssa.Value, bool) {
	for _, f := range edgeFacts(at.Block()) {
		nf := normFact(f)
		lk, ok := nf.V.(*ssa.Lookup)
		if !ok || nf.Outcome != wantOutcome {
			continue
		}
		inner, ok := lk.X.(*ssa.Lookup)
		if !ok {
			continue
		}
		if ld, ok := inner.X.(*ssa.UnOp); ok {
			if g, ok := ld.X.(*ssa.Global); ok && g.Name() == "compilerIntrinsics" {
				return inner.Index, lk.Index, true
			}
		}
	}
	return nil, nil, false
}

func checkC01(c *Ctx) {
	w := c.W
	hwp := w.Fn("hashWithPackage")
	// R01.1 ---------------------------------------------------------------
	c.Rule("R16.3", "every obfuscated name is produced by hashWithCustomSalt through its three wrappers (shared with C16)", 3)
	if hcs := w.Fn("hashWithCustomSalt"); hcs != nil {
		want := map[string]bool{"hashWithPackage": true, "hashWithStruct": true, "randomName": true}
		for _, cs := range w.CallsToFn(hcs) {
			name := w.FuncName(cs.Fn)
			c.Check(want[name], "R16.3", "caller "+name, w.Pos(cs.Instr.Pos()), "one of the three salt wrappers", name+" derives names with its own salt")
		}
		var adhoc []string
		w.forEachInstr(func(fn *ssa.Function, in ssa.Instruction) {
			if ci, ok := in.(ssa.CallInstruction); ok {
				n := calleeName(ci)
				if (n == "(*encoding/base64.Encoding).Encode" || n == "(*encoding/base64.Encoding).EncodeToString") && fn != hcs {
					name := w.FuncName(fn)
					switch name {
					case "encodeBuildIDHash", "(seedFlag).String", "main", "linker.loadLinkerPatches":
					default:
						adhoc = append(adhoc, name+" at "+w.Pos(in.Pos()))
					}
				}
			}
		})
		c.Check(len(adhoc) == 0, "R16.3", "no other base64 name construction", "", "only build ids, the seed and the patch version are base64-encoded elsewhere", "identifier-like strings are built outside the name function: "+strings.Join(adhoc, ", "))
	}

	// R01.2 ---------------------------------------------------------------
	c.Rule("R01.2", "names renamed outside Go syntax respect the compiler intrinsics table", 4)
	type site struct{ fn, what string }
	for _, s := range []site{
		{"(*transformer).replaceAsmNames", "assembly symbol"}, {"(*transformer).directiveLocalName", "directive local name"},
		{"(*transformer).transformLinkname", "linkname target"}, {"(*transformer).obfuscatedObjectName", "function in Go syntax"},
	} {
		fn := w.Fn(s.fn)
		ok, why := false, "no hashWithPackage call found"
		if fn != nil && s.fn == "(*transformer).obfuscatedObjectName" {
			// the function arm returns "keep the name" when compilerIntrinsics[obj.Pkg().Path()][obj.Name()] is true
			why = "no compilerIntrinsics[path][name] test on the object's own package path and name that keeps the name"
			for _, b := range fn.Blocks {
				iff := ifOf(b)
				if iff == nil {
					continue
				}
				lk, isLk := iff.Cond.(*ssa.Lookup)
				if !isLk {
					continue
				}
				inner, isLk2 := lk.X.(*ssa.Lookup)
				if !isLk2 || !w.BackSlice(inner.X, sliceOpt{StopGlobals: []string{"main.compilerIntrinsics"}}).Globals["main.compilerIntrinsics"] {
					continue
				}
				pathOK := w.BackSlice(inner.Index, sliceOpt{}).HasCall("(*go/types.Package).Path")
				nameOK := w.BackSlice(lk.Index, sliceOpt{}).HasCall("(go/types.Object).Name")
				keeps := false
				if r, isRet := b.Succs[0].Instrs[len(b.Succs[0].Instrs)-1].(*ssa.Return); isRet {
					if res := retResults(r); len(res) == 2 {
						if v, isC := constBool(res[1]); isC && !v {
							keeps = true
						}
					}
				}
				if pathOK && nameOK && keeps {
					ok = true
				}
			}
		} else if fn != nil {
			for _, cs := range w.CallsToFn(hwp) {
				if cs.Fn != fn {
					continue
				}
				pathK, nameK, found := intrinsicFact(w, cs.Instr, false)
				if !found {
					// the linkname target is tested once, before the receiver/name split
					if s.fn == "(*transformer).transformLinkname" {
						continue
					}
					why = "the name is hashed without testing compilerIntrinsics at " + w.Pos(cs.Instr.Pos())
					continue
				}
				// the tested name must be (the source of) the hashed name; the tested path the hashed package's path
				ns := w.BackSlice(cs.Args()[1], sliceOpt{})
				ps := w.BackSlice(pathK, sliceOpt{})
				if (ns.Values[nameK] || cs.Args()[1] == nameK) && (ps.Fields["listedPackage.ImportPath"] || ps.HasCall("(*go/types.Package).Path")) {
					ok = true
				} else {
					why = "compilerIntrinsics is tested on other values than the ones being renamed at " + w.Pos(cs.Instr.Pos())
				}
			}
			if !ok && s.fn == "(*transformer).transformLinkname" {
				// any hash site of the foreign name is dominated by the intrinsics test on (lpkg.ImportPath, foreignName)
				all := true
				n := 0
				for _, cs := range w.CallsToFn(hwp) {
					if cs.Fn != fn {
						continue
					}
					n++
					if _, _, found := intrinsicFact(w, cs.Instr, false); !found {
						all = false
						why = "a linkname target is hashed without the intrinsics test at " + w.Pos(cs.Instr.Pos())
					}
				}
				ok = all && n > 0
			}
		}
		c.Check(ok, "R01.2", s.what+" ("+s.fn+")", "", "hashed only when compilerIntrinsics[path][name] is false", s.what+": "+why+" — an intrinsic would be renamed on one side only and the build breaks or misbehaves")
	}

	// R01.3 ---------------------------------------------------------------
	c.Rule("R01.3", "import paths are obfuscated in one place and every emitter uses it", 8)
	allowedPathHash := map[string]bool{"(*listedPackage).obfuscatedImportPath": true, "(*listedPackage).obfuscatedSourceDir": true, "commandReverse": true, "commandReverse$1": true}
	for _, cs := range w.CallsToFn(hwp) {
		ns := w.BackSlice(cs.Args()[1], sliceOpt{})
		if !ns.Fields["listedPackage.ImportPath"] || len(ns.Calls) > 0 {
			continue
		}
		name := w.FuncName(cs.Fn)
		c.Check(allowedPathHash[name], "R01.3", "ImportPath hashed in "+name, w.Pos(cs.Instr.Pos()), "the single source (or a temp-dir name / the reverse table)",
			name+" computes an obfuscated import path itself instead of calling obfuscatedImportPath: the special cases (main, runtime, reflect, intrinsics, linknamed packages) are bypassed")
	}
	oip := "(*mvdan.cc/garble.listedPackage).obfuscatedImportPath"
	emit := func(key string, ok bool, why string) {
		c.Check(ok, "R01.3", "emitter: "+key, "", "takes the path from obfuscatedImportPath()", key+" does not take the package path from obfuscatedImportPath: "+why)
	}
	for _, name := range []string{"(*transformer).transformCompile", "(*transformer).transformAsm"} {
		ok := false
		for _, cs := range w.CallsTo("mvdan.cc/garble.flagSetValue") {
			if w.FuncName(cs.Fn) == name {
				if k, _ := constString(cs.Args()[1]); k == "-p" && w.BackSlice(cs.Args()[2], sliceOpt{}).HasCall(oip) {
					ok = true
				}
			}
		}
		emit("-p in "+name, ok, "the object file would carry the original path")
	}
	if pic := w.Fn("(*transformer).processImportCfg"); pic != nil {
		n, good := 0, 0
		for _, cs := range w.CallsTo("fmt.Fprintf") {
			if cs.Fn != pic {
				continue
			}
			n++
			if w.BackSlice(cs.Args()[2], sliceOpt{}).HasCall(oip) {
				good++
			}
		}
		emit("importcfg lines", n == 2 && good == 2, fmt.Sprintf("%d of %d line writers use it", good, n))
	}
	if post := w.Fn("(*transformer).transformGoFile$2"); post != nil {
		ok := false
		for _, b := range post.Blocks {
			for _, in := range b.Instrs {
				if st, isSt := in.(*ssa.Store); isSt {
					if fa, isFA := st.Addr.(*ssa.FieldAddr); isFA && namedOf(fa.X.Type()) == "BasicLit" && fieldName(fa.X.Type(), fa.Field) == "Value" {
						if w.BackSlice(st.Val, sliceOpt{}).HasCall(oip) {
							ok = true
						}
					}
				}
			}
		}
		emit("import specs", ok, "imports would name the original path")
	}
	for _, name := range []string{"(*transformer).transformLinkname", "(*transformer).transformDirectives", "(*transformer).replaceAsmNames"} {
		fn := w.Fn(name)
		ok := false
		if fn != nil {
			for _, cs := range w.CallsTo(oip) {
				if cs.Fn == fn {
					ok = true
				}
			}
		}
		emit(strings.TrimPrefix(name, "(*transformer)."), ok, "no call to obfuscatedImportPath")
	}

	// R01.5 ---------------------------------------------------------------
	c.Rule("R01.5", "every documented naming exception is still present", 11)
	exits, err := objectNameExits(w)
	if err != nil {
		c.Undecided("R01.5", "obfuscatedObjectName", "", err.Error())
	} else {
		have := map[string]bool{}
		for _, e := range exits {
			have[e.Class] = true
		}
		for _, req := range requiredNameExceptions {
			c.Check(have[req], "R01.5", "exception: "+req, "", "present", "obfuscatedObjectName no longer keeps the name for: "+req+" — such programs stop building or behave differently")
		}
	}

	// R01.6 / R01.7 ---------------------------------------------------------
	c.Rule("R01.6", "-ldflags=-X values are duplicated under the obfuscated path and name", 1)
	c.Rule("R01.7", "qualified names are hashed with the package their path names", 3)
	if tl := w.Fn("(*transformer).transformLink"); tl != nil {
		ok := false
		fns := append([]*ssa.Function{tl}, tl.AnonFuncs...)
		for _, fn := range fns {
			for _, cs := range w.CallsTo("fmt.Sprintf") {
				if cs.Fn != fn {
					continue
				}
				if f, _ := constString(cs.Args()[0]); f != "-X=%s.%s=%s" {
					continue
				}
				ops := variadicElems(cs.Args()[1])
				if len(ops) == 3 && w.BackSlice(ops[0], sliceOpt{}).HasCall(oip) && w.BackSlice(ops[1], sliceOpt{}).HasCall("mvdan.cc/garble.hashWithPackage") {
					ok = true
				}
			}
		}
		c.Check(ok, "R01.6", "transformLink duplicates -X", w.Pos(tl.Pos()), "-X=<obfuscatedImportPath>.<hashWithPackage(lpkg, name)>=<value>", "-ldflags=-X is no longer duplicated for the obfuscated symbol: injected values are silently lost")
	}
	for _, name := range []string{"(*transformer).replaceAsmNames", "(*transformer).transformLinkname", "(*transformer).transformLink"} {
		fn := w.Fn(name)
		if fn == nil {
			c.Undecided("R01.7", name, "", "function not found")
			continue
		}
		fns := append([]*ssa.Function{fn}, fn.AnonFuncs...)
		var pkgVals []ssa.Value
		for _, f := range fns {
			for _, cs := range w.CallsToFn(hwp) {
				if cs.Fn == f {
					pkgVals = append(pkgVals, cs.Args()[0])
				}
			}
			for _, cs := range w.CallsTo(oip) {
				if cs.Fn == f {
					pkgVals = append(pkgVals, cs.Args()[0])
				}
			}
		}
		// directiveLocalName hashes the local name with curPkg: not a qualified name
		same, looked := true, false
		var first string
		for _, v := range pkgVals {
			p := accessPath(v)
			if phi, isPhi := v.(*ssa.Phi); isPhi && phi.Comment != "" {
				p = "var:" + phi.Comment // the same source variable at different merge points
			}
			if first == "" {
				first = p
			} else if p != first {
				same = false
			}
			sl := w.BackSlice(v, sliceOpt{})
			if sl.HasCall("mvdan.cc/garble.listPackage") || sl.HasCall("(*mvdan.cc/garble.listedPackages).get") {
				looked = true
			}
		}
		c.Check(len(pkgVals) > 0 && same && looked, "R01.7", name+" package provenance", w.Pos(fn.Pos()), "one package value, obtained by looking the symbol's path up, is used for both the path and the name",
			fmt.Sprintf("%s hashes a qualified symbol with different package values, or with one that was not looked up from the symbol's own path (same value: %v, looked up: %v)", name, same, looked))
	}
	checkXSplit(c)
	checkLinkerAgreement(c)
}

// lastDotSplit reports whether the value depends on the index of the LAST '.' of some
// string: strings.LastIndex(s, ".") or strings.LastIndexByte(s, '.').
func lastDotSplit(sl *Slice) bool {
	for _, name := range []string{"strings.LastIndex", "strings.LastIndexByte"} {
		for _, v := range sl.Calls[name] {
			call, ok := v.(*ssa.Call)
			if !ok || len(call.Call.Args) != 2 {
				continue
			}
			if str, ok := constString(call.Call.Args[1]); ok && str == "." {
				return true
			}
			if n, ok := constInt(call.Call.Args[1]); ok && n == '.' {
				return true
			}
		}
	}
	return false
}

// R01.8: cmd/link splits -X importpath.name=value at the first '=' and then at the
// last '.' before it (import paths may contain dots in every element, e.g.
// gopkg.in/yaml.v3). garble parses the same argument twice — when it decides which
// variables keep their literal, and when it duplicates the flag for the obfuscated
// name — and both must split where the linker does, or the injected value is
// silently lost for exactly those packages.
func checkXSplit(c *Ctx) {
	w := c.W
	c.Rule("R01.8", "-X arguments are split where cmd/link splits them: at the last dot before '='", 3)
	// reference: the toolchain's own parser
	for _, goroot := range gorootsFor(c.Tier) {
		file := filepath.Join(goroot, "src", "cmd", "link", "internal", "ld", "data.go")
		f, err := parser.ParseFile(token.NewFileSet(), file, nil, parser.SkipObjectResolution)
		if err != nil {
			c.Undecided("R01.8", "cmd/link addstrdata1 ("+gorootName(goroot)+")", "", "cannot parse "+file+": "+err.Error())
			continue
		}
		found, lastDot := false, false
		for _, d := range f.Decls {
			fd, ok := d.(*ast.FuncDecl)
			if !ok || fd.Name.Name != "addstrdata1" {
				continue
			}
			found = true
			ast.Inspect(fd, func(n ast.Node) bool {
				if call, ok := n.(*ast.CallExpr); ok && len(call.Args) == 2 {
					if sel, ok := call.Fun.(*ast.SelectorExpr); ok && strings.HasPrefix(sel.Sel.Name, "LastIndex") {
						if lit, ok := call.Args[1].(*ast.BasicLit); ok && (lit.Value == `"."` || lit.Value == `'.'`) {
							lastDot = true
						}
					}
				}
				return true
			})
		}
		switch {
		case !found:
			c.Undecided("R01.8", "cmd/link addstrdata1 ("+gorootName(goroot)+")", "", "the linker's -X parser is not where it used to be; re-read cmd/link and update the rule")
		default:
			c.Check(lastDot, "R01.8", "cmd/link addstrdata1 ("+gorootName(goroot)+")", "", "reference: the linker splits at the last dot before '='",
				"the linker no longer splits -X at the last dot; garble's two parsers must be re-derived from it")
		}
	}
	// garble's two parsers
	if fn := w.Fn("computeLinkerVariableStrings"); fn != nil {
		n := 0
		for _, f := range append([]*ssa.Function{fn}, fn.AnonFuncs...) {
			for _, cs := range w.CallsTo("(*go/types.Scope).Lookup") {
				if cs.Fn != f {
					continue
				}
				n++
				sl := w.BackSlice(cs.Args()[len(cs.Args())-1], sliceOpt{IntoCallees: true, Depth: 3})
				c.Check(lastDotSplit(sl), "R01.8", "computeLinkerVariableStrings: variable name", w.Pos(cs.Instr.Pos()), "the name looked up in the package scope is what follows the last dot",
					"the variable name of a -X flag is not taken after the LAST dot: for an import path whose last element contains a dot the variable is not found, its literal is obfuscated and the linker's value is silently ignored")
			}
		}
		if n == 0 {
			c.Undecided("R01.8", "computeLinkerVariableStrings: variable name", w.Pos(fn.Pos()), "no Scope.Lookup of the -X variable found")
		}
	} else {
		c.Undecided("R01.8", "computeLinkerVariableStrings", "", "function not found")
	}
	if tl := w.Fn("(*transformer).transformLink"); tl != nil {
		n := 0
		for _, f := range append([]*ssa.Function{tl}, tl.AnonFuncs...) {
			for _, cs := range w.CallsToFn(w.Fn("hashWithPackage")) {
				if cs.Fn != f {
					continue
				}
				n++
				sl := w.BackSlice(cs.Args()[1], sliceOpt{IntoCallees: true, Depth: 3})
				c.Check(lastDotSplit(sl), "R01.8", "transformLink: -X variable name", w.Pos(cs.Instr.Pos()), "the name hashed for the duplicated flag is what follows the last dot",
					"the duplicated -X flag hashes a name that is not taken after the LAST dot: for an import path whose last element contains a dot the obfuscated symbol never receives the value")
			}
		}
		if n == 0 {
			c.Undecided("R01.8", "transformLink: -X variable name", w.Pos(tl.Pos()), "no hashWithPackage call found in transformLink")
		}
	}
}

// R01.4 (repo side)
var c01anchors struct {
	magicConst string
	entryFunc  string
	callName   string
	field      string
}

func checkLinkerAgreement(c *Ctx) {
	w := c.W
	c.Rule("R01.4", "the linker patches and garble agree on variables, formula and anchors", 6)
	patches, _ := filepath.Glob(filepath.Join(w.Repo, "internal", "linker", "patches", "*", "*.patch"))
	var text []byte
	for _, p := range patches {
		data, _ := os.ReadFile(p)
		text = append(text, data...)
	}
	lp := w.Pkg("linker")
	me := w.Fn("mainErr")
	if lp == nil || me == nil || len(text) == 0 {
		c.Undecided("R01.4", "linker package / patches", "", "not found")
		return
	}
	for _, name := range []string{"MagicValueEnv", "TinyEnv", "EntryOffKeyEnv"} {
		obj := lp.Types.Scope().Lookup(name)
		if obj == nil {
			c.Bad("R01.4", "linker."+name, "", "constant is gone")
			continue
		}
		cst, isConst := obj.(*types.Const)
		if !isConst {
			c.Bad("R01.4", "linker."+name, "", "no longer a constant")
			continue
		}
		val := constant.StringVal(cst.Val())
		c.Check(strings.Contains(string(text), `os.Getenv("`+val+`")`), "R01.4", "patch reads "+val, "", "os.Getenv(\""+val+"\") occurs in the embedded patches",
			"no embedded patch reads "+val+": the patched linker never sees the value garble exports")
		if name == "TinyEnv" {
			continue
		}
		// set unconditionally on the link path before the tool is executed
		ok := false
		for _, cs := range w.CallsTo("os.Setenv") {
			if cs.Fn != me {
				continue
			}
			if k, isConst := constString(cs.Arg(0)); isConst && k == val {
				only, isLink := true, false
				for _, f := range edgeFacts(cs.Instr.Block()) {
					nf := normFact(f)
					if bo, isBo := nf.V.(*ssa.BinOp); isBo {
						if s, isS := constString(bo.Y); isS {
							if s == "link" && nf.Outcome {
								isLink = true
							}
							continue // the switch over the command and the tool name
						}
					}
					if _, _, isNil := nilTest(nf.V); isNil {
						continue // error checks of earlier steps
					}
					only = false
				}
				only = only && isLink
				ok = only
			}
		}
		c.Check(ok, "R01.4", "mainErr exports "+val, "", "set whenever the tool is the linker", val+" is not exported on every path that runs the linker: the patched linker panics or writes an unreadable binary")
	}
	// formula: patch side
	rx := regexp.MustCompile(`SetUint32\([^\n]*,\s*(entryOff[^\n]*)\)\s*\n`)
	m := rx.FindSubmatch(text)
	patchTree := ""
	if m != nil {
		if e, err := parser.ParseExpr(string(m[1])); err == nil {
			patchTree = opTree(e)
		}
	}
	// garble side: the BinaryExpr built in updateEntryOffset
	garbleTree := ""
	for _, f := range w.Main.Syntax {
		for _, d := range f.Decls {
			fd, ok := d.(*ast.FuncDecl)
			if !ok || fd.Name.Name != "updateEntryOffset" {
				continue
			}
			ast.Inspect(fd, func(n ast.Node) bool {
				cl, ok := n.(*ast.CompositeLit)
				if !ok || garbleTree != "" {
					return true
				}
				if t := builtOpTree(cl); strings.Count(t, "(") >= 2 {
					garbleTree = t
					return false
				}
				return true
			})
			// anchors for the toolchain-side check
			ast.Inspect(fd, func(n ast.Node) bool {
				if bl, ok := n.(*ast.BasicLit); ok && bl.Kind == token.STRING {
					s := strings.Trim(bl.Value, `"`)
					switch s {
					case "textAddr":
						c01anchors.callName = s
					case "entry":
						c01anchors.entryFunc = s
					case "nameOff":
						c01anchors.field = s
					}
				}
				return true
			})
		}
		for _, d := range f.Decls {
			if fd, ok := d.(*ast.FuncDecl); ok && fd.Name.Name == "updateMagicValue" {
				ast.Inspect(fd, func(n ast.Node) bool {
					if bl, ok := n.(*ast.BasicLit); ok && bl.Kind == token.STRING && strings.Contains(bl.Value, "Magic") {
						c01anchors.magicConst = strings.Trim(bl.Value, `"`)
					}
					return true
				})
			}
		}
	}
	c.Check(patchTree != "" && patchTree == garbleTree, "R01.4", "entry offset formula", "", "linker encodes and runtime decodes with "+patchTree,
		fmt.Sprintf("the linker patch computes %q but the runtime patch built by updateEntryOffset computes %q: every function entry address would be decoded wrongly", patchTree, garbleTree))
}

// opTree renders the operator structure of an expression: "^(x,*(x,x))".
func opTree(e ast.Expr) string {
	switch x := e.(type) {
	case *ast.ParenExpr:
		return opTree(x.X)
	case *ast.BinaryExpr:
		return x.Op.String() + "(" + opTree(x.X) + "," + opTree(x.Y) + ")"
	case *ast.CallExpr:
		if len(x.Args) == 1 {
			return opTree(x.Args[0]) // conversions
		}
	}
	return "x"
}

// builtOpTree reads the operator structure out of code that *constructs* an
// ast.BinaryExpr: &ast.BinaryExpr{X: ..., Op: token.XOR, Y: ...}.
func builtOpTree(cl *ast.CompositeLit) string {
	sel, ok := cl.Type.(*ast.SelectorExpr)
	if !ok || sel.Sel.Name != "BinaryExpr" {
		return "x"
	}
	op, xs, ys := "?", "x", "x"
	for _, el := range cl.Elts {
		kv, ok := el.(*ast.KeyValueExpr)
		if !ok {
			continue
		}
		k, _ := kv.Key.(*ast.Ident)
		if k == nil {
			continue
		}
		switch k.Name {
		case "Op":
			if s, ok := kv.Value.(*ast.SelectorExpr); ok {
				switch s.Sel.Name {
				case "XOR":
					op = "^"
				case "MUL":
					op = "*"
				case "ADD":
					op = "+"
				case "SUB":
					op = "-"
				default:
					op = s.Sel.Name
				}
			}
		case "X":
			xs = builtOperand(kv.Value)
		case "Y":
			ys = builtOperand(kv.Value)
		}
	}
	return op + "(" + xs + "," + ys + ")"
}

func builtOperand(e ast.Expr) string {
	switch x := e.(type) {
	case *ast.UnaryExpr:
		if cl, ok := x.X.(*ast.CompositeLit); ok {
			if sel, ok := cl.Type.(*ast.SelectorExpr); ok {
				switch sel.Sel.Name {
				case "BinaryExpr":
					return builtOpTree(cl)
				case "ParenExpr":
					for _, el := range cl.Elts {
						if kv, ok := el.(*ast.KeyValueExpr); ok {
							return builtOperand(kv.Value)
						}
					}
				}
			}
		}
	}
	return "x"
}

// R01.4 (toolchain side): the anchors garble patches by name exist.
func checkC01goroot(c *Ctx) {
	for _, goroot := range gorootsFor(c.Tier) {
		gv := gorootName(goroot)
		read := func(rel string) string {
			data, _ := os.ReadFile(filepath.Join(goroot, "src", rel))
			return string(data)
		}
		abi := read("internal/abi/symtab.go")
		rt := read("runtime/symtab.go")
		c.Check(c01anchors.magicConst != "" && regexp.MustCompile(`\b`+regexp.QuoteMeta(c01anchors.magicConst)+`\s+\w+\s*=`).MatchString(abi), "R01.4", "anchor "+c01anchors.magicConst+" ("+gv+")", "GOROOT/src/internal/abi/symtab.go",
			"constant declared with a single value", "internal/abi/symtab.go of "+gv+" does not declare the constant updateMagicValue rewrites: garble panics for this toolchain")
		okEntry := regexp.MustCompile(`func \(f funcInfo\) ` + regexp.QuoteMeta(c01anchors.entryFunc) + `\(\) uintptr \{\s*return f\.datap\.` + regexp.QuoteMeta(c01anchors.callName) + `\(f\.\w+\)`).MatchString(rt)
		c.Check(c01anchors.entryFunc != "" && okEntry, "R01.4", "anchor funcInfo.entry ("+gv+")", "GOROOT/src/runtime/symtab.go",
			"entry() returns f.datap.textAddr(f.<field>)", "runtime/symtab.go of "+gv+" has no funcInfo.entry of the shape updateEntryOffset rewrites")
		c.Check(c01anchors.field != "" && regexp.MustCompile(`\b`+regexp.QuoteMeta(c01anchors.field)+`\s+int32`).MatchString(read("runtime/runtime2.go")+rt), "R01.4", "anchor field "+c01anchors.field+" ("+gv+")", "GOROOT/src/runtime",
			"the _func field used as the key exists", "the runtime of "+gv+" has no field "+c01anchors.field+" to decode entry offsets with")
	}
}
