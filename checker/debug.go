package main

import (
	"fmt"
	"os"
)

// debugDump prints the SSA of module functions whose key name matches one of args.
func debugDump(repo string, names []string) int {
	w, err := LoadRepo(repo, BuildConfig{GOOS: "linux", GOARCH: "amd64"})
	if err != nil {
		fmt.Println("ERROR", err)
		return 2
	}
	if len(names) == 0 {
		for _, fn := range w.ModuleFuncs() {
			fmt.Println(w.FuncName(fn))
		}
		return 0
	}
	for _, n := range names {
		fn := w.Fn(n)
		if fn == nil {
			fmt.Println("no such function:", n)
			continue
		}
		fn.WriteTo(os.Stdout)
	}
	return 0
}

func debugFsx(repo string) int {
	w, err := LoadRepo(repo, BuildConfig{GOOS: "linux", GOARCH: "amd64"})
	if err != nil {
		fmt.Println("ERROR", err)
		return 2
	}
	for _, e := range fsEffects(w) {
		fmt.Printf("%-22s %-45s %-10s excl=%-5v %v\n", w.Pos(e.Site.Instr.Pos()), e.key(w), e.Kind, e.Excl, e.Roots)
	}
	return 0
}
