package main

import (
	"fmt"
	"os"

	"golang.org/x/tools/go/ssa"
)

// debugDump prints the SSA of module functions whose key name matches one of args.
func debugDump(repo string, names []string) int {
	w, err := LoadRepo(repo, BuildConfig{GOOS: "linux", GOARCH: "amd64"})
	if err != nil {
		fmt.Println("ERROR", err)
		return 2
	}
	if len(names) == 0 {
		for _, fn := range w.ModuleFuncs() {
			fmt.Println(w.FuncName(fn))
		}
		return 0
	}
	for _, n := range names {
		fn := w.Fn(n)
		if fn == nil {
			fmt.Println("no such function:", n)
			continue
		}
		fn.WriteTo(os.Stdout)
	}
	return 0
}

func debugFsx(repo string) int {
	w, err := LoadRepo(repo, BuildConfig{GOOS: "linux", GOARCH: "amd64"})
	if err != nil {
		fmt.Println("ERROR", err)
		return 2
	}
	for _, e := range fsEffects(w) {
		fmt.Printf("%-22s %-45s %-10s excl=%-5v %v\n", w.Pos(e.Site.Instr.Pos()), e.key(w), e.Kind, e.Excl, e.Roots)
	}
	return 0
}

func debugDet(repo string) int {
	w, err := LoadRepo(repo, BuildConfig{GOOS: "linux", GOARCH: "amd64"})
	if err != nil {
		fmt.Println("ERROR", err)
		return 2
	}
	g := w.Graph()
	var roots []*ssa.Function
	for _, n := range detRegionRoots {
		roots = append(roots, w.Fn(n))
	}
	reach, _ := g.Reach(roots...)
	all := map[*ssa.Function]bool{}
	for _, f := range w.ModuleFuncs() {
		all[f] = true
	}
	fmt.Println("region functions:", len(reach), "of", len(all))
	for _, s := range detSites(w, all) {
		in := "out"
		if reach[s.Fn] {
			in = "IN "
		}
		fmt.Printf("%s %s %-28s %s  ## %s\n", s.Kind, in, w.Pos(s.Instr.Pos()), s.key(w), s.Proved)
	}
	return 0
}

func debugGuards(repo string) int {
	w, err := LoadRepo(repo, BuildConfig{GOOS: "linux", GOARCH: "amd64"})
	if err != nil {
		fmt.Println("ERROR", err)
		return 2
	}
	for _, cs := range w.CallsToFn(w.Fn("hashWithPackage")) {
		ok, how := guardedByToObfuscate(w, cs.Instr, cs.Args()[0], 0)
		fmt.Printf("%-24s %-45s pkg=%-40s name=%-30s guarded=%v %s\n", w.Pos(cs.Instr.Pos()), w.FuncName(cs.Fn), accessPath(cs.Args()[0]), valueDesc(cs.Args()[1]), ok, how)
	}
	return 0
}

func debugExits(repo string) int {
	w, err := LoadRepo(repo, BuildConfig{GOOS: "linux", GOARCH: "amd64"})
	if err != nil {
		fmt.Println("ERROR", err)
		return 2
	}
	exits, err := objectNameExits(w)
	if err != nil {
		fmt.Println(err)
		return 2
	}
	for _, e := range exits {
		fmt.Printf("%-24s %s\n", w.Pos(e.Ret.Pos()), e.Class)
	}
	return 0
}
