package main

import (
	"fmt"
	"go/token"
	"strings"

	"golang.org/x/tools/go/ssa"
)

func init() {
	register(&propCheck{
		id: "C19",
		explain: "Decides the structural clauses behind 'garble touches only its own files' on the SSA of every garble function: " +
			"(R19.1) every os.Remove/RemoveAll removes a directory this process created (MkdirTemp / the shared temp dir) or the -debugdir target under the ownership test; a path read from the environment must have been set or cleared by this very process on every path to the removal; " +
			"(R19.2) after each toolexecCmd call the clean-up is deferred before any return, and no os.Exit/log.Fatal is reachable from mainErr (they would skip deferred clean-up); " +
			"(R19.3) -debugdir: every path to the first write into the directory passes an ownership edge (absent | empty | marker present), the marker is written before the go command is assembled, artefacts are restored on the success path and -a is forced when the cache lacks them; " +
			"(R19.4) every create/write/mkdir/remove/rename in garble has a path rooted in garble's temp dir, its cache, the -debugdir target or a profiling directory — never the source tree, GOROOT or an unclassified location. " +
			"Does not decide what the spawned go/git/link processes do.",
		perConfig: checkC19,
	})
}

func isEnvSetter(ci ssa.CallInstruction, key string) bool {
	n := calleeName(ci)
	if n != "os.Setenv" && n != "os.Unsetenv" {
		return false
	}
	k, ok := constString(ci.Common().Args[0])
	return ok && k == key
}

// mustSetEnv: does every return of fn come after an os.Setenv/Unsetenv(key)?
func mustSetEnv(fn *ssa.Function, key string) bool {
	if fn == nil || len(fn.Blocks) == 0 {
		return false
	}
	for _, b := range fn.Blocks {
		for _, in := range b.Instrs {
			ci, ok := in.(ssa.CallInstruction)
			if !ok || !isEnvSetter(ci, key) {
				continue
			}
			if _, isDefer := in.(*ssa.Defer); isDefer {
				continue
			}
			all := true
			for _, r := range returnsOf(fn) {
				if !dominatesInstr(in, r) {
					all = false
				}
			}
			if all {
				return true
			}
		}
	}
	return false
}

// envOwnedBefore reports whether, on every path to anchor, this process has
// itself set or cleared the environment variable key.
func envOwnedBefore(w *World, anchor ssa.Instruction, key string) (bool, string) {
	fn := anchor.Parent()
	for _, b := range fn.Blocks {
		for _, in := range b.Instrs {
			ci, ok := in.(ssa.CallInstruction)
			if !ok || !dominatesInstr(in, anchor) {
				continue
			}
			if _, isDefer := in.(*ssa.Defer); isDefer {
				continue
			}
			if isEnvSetter(ci, key) {
				return true, "dominated by " + calleeName(ci) + " at " + w.Pos(in.Pos())
			}
			if callee := calleeFunc(ci); callee != nil && w.isModuleFn(callee) && mustSetEnv(callee, key) {
				return true, "dominated by a call to " + w.FuncName(callee) + ", which sets or clears " + key + " on every path"
			}
		}
	}
	return false, ""
}

// deferAnchor: if fn is a closure that is only ever deferred (or called) in
// its parent, return those instructions; the closure body runs at that point
// (or later), so what dominates the anchor has happened before the body.
func deferAnchors(fn *ssa.Function) []ssa.Instruction {
	p := fn.Parent()
	if p == nil {
		return nil
	}
	var out []ssa.Instruction
	for _, b := range p.Blocks {
		for _, in := range b.Instrs {
			if ci, ok := in.(ssa.CallInstruction); ok {
				if closureFn(ci.Common().Value) == fn {
					out = append(out, in)
				}
			}
		}
	}
	return out
}

func checkC19(c *Ctx) {
	w := c.W
	effects := fsEffects(w)
	c.Count("filesystem effect sites", len(effects))

	// R19.4 ---------------------------------------------------------------
	c.Rule("R19.4", "every filesystem effect is rooted in garble's own temp dir, cache, -debugdir target or profile dir", 28)
	c.Rule("R19.5", "every spawned command is one of the reviewed tool invocations", 9)
	seenKey := map[string]int{}
	for _, e := range effects {
		k := e.key(w)
		seenKey[k]++
		key := fmt.Sprintf("%s #%d", k, seenKey[k])
		pos := w.Pos(e.Site.Instr.Pos())
		if e.Kind == "exec" {
			checkExec(c, "R19.5", key, pos, e)
			continue
		}
		bad := ""
		for _, r := range e.Roots {
			switch {
			case r == rootOwnTemp, r == rootSharedTemp, r == rootCache, r == rootDebugDir, r == rootProfile:
			case r == rootDefaultTmp && e.Kind == "mktemp":
				// a fresh unique directory under os.TempDir()
			case strings.HasPrefix(r, rootEnv) && e.Kind == "remove":
				// judged by R19.1
			default:
				bad = r
			}
		}
		if bad != "" {
			c.Bad("R19.4", key, pos, fmt.Sprintf("%s on a path rooted in %s (all roots: %v): garble would create, modify or delete something it does not own", e.Callee, bad, e.Roots))
		} else {
			c.OK("R19.4", key, pos, fmt.Sprintf("%s rooted in %v", e.Kind, e.Roots))
		}
	}

	// R19.1 ---------------------------------------------------------------
	c.Rule("R19.1", "deletion policy: removals target own temp dirs, or -debugdir under the ownership test; env-named paths only if this process set the variable", 4)
	seenKey = map[string]int{}
	for _, e := range effects {
		if e.Kind != "remove" {
			continue
		}
		k := e.key(w)
		seenKey[k]++
		key := fmt.Sprintf("%s #%d", k, seenKey[k])
		pos := w.Pos(e.Site.Instr.Pos())
		verdict, detail := true, ""
		for _, r := range e.Roots {
			switch {
			case r == rootOwnTemp || r == rootSharedTemp:
				detail += "removes a directory this process tree created; "
			case r == rootCache:
				detail += "removes a file of garble's own cache; "
			case r == rootDebugDir:
				// ownership is R19.3's business; here only note it
				detail += "removes the -debugdir target (ownership decided by R19.3); "
			case strings.HasPrefix(r, rootEnv+"("):
				envKey := strings.TrimSuffix(strings.TrimPrefix(r, rootEnv+"("), ")")
				// anchor: the Getenv call, or the defer of the enclosing closure
				var anchors []ssa.Instruction
				for _, cv := range e.Slice.Calls["os.Getenv"] {
					call := cv.(*ssa.Call)
					if k, _ := constString(call.Call.Args[0]); k != envKey {
						continue
					}
					if da := deferAnchors(call.Parent()); len(da) > 0 {
						anchors = append(anchors, da...)
					} else {
						anchors = append(anchors, call)
					}
				}
				if len(anchors) == 0 {
					verdict, detail = false, "cannot locate the os.Getenv call"
				}
				for _, a := range anchors {
					ok, why := envOwnedBefore(w, a, envKey)
					if !ok {
						verdict = false
						detail = fmt.Sprintf("removes os.Getenv(%q), but on some path to %s this process has neither set nor cleared %s itself: an inherited value (a directory garble did not create) would be deleted", envKey, w.Pos(a.Pos()), envKey)
					} else if verdict {
						detail += why + "; "
					}
				}
			default:
				verdict, detail = false, "removes a path rooted in "+r
			}
		}
		if verdict {
			c.OK("R19.1", key, pos, detail)
		} else {
			c.Bad("R19.1", key, pos, detail)
		}
	}

	checkCleanupRegistered(c)
	checkNoExit(c)
	checkDebugDir(c, effects)
}

// reviewed tool invocations, by their constant words.
var reviewedExec = []struct{ prefix, why string }{
	{"EXEC go tool buildid", "reads the build id of the garble binary"},
	{"EXEC go env", "reads the go environment"},
	{"EXEC go version", "bug report"},
	{"EXEC go <param command> -h", "prints go's help"},
	{"EXEC go <call builtin.append...>", "the wrapped go build/test/run/list: user flags and packages after garble's own"},
	{"EXEC <global sharedCache.GoCmd> <local args...>", "go list for package facts"},
	{"EXEC git --git-dir <param workingDir> apply --verbose", "applies the linker patches inside the shared temp dir"},
	{"EXEC <call path/filepath.Join> build -overlay <call path/filepath.Join> -o <param outputLinkPath> cmd/link", "builds the patched linker into garble's cache"},
	{"EXEC <param args[i]> <param args[:]...>", "re-executes the wrapped tool with -V=full"},
	{"EXEC <var executablePath> <var transformed...>", "executes the wrapped tool (or the patched linker) with transformed arguments"},
	{"EXEC <call os.Getenv> <*ssa.BinOp>", "garble bug: opens the browser"},
}

func checkExec(c *Ctx, rule, key, pos string, e fsEffect) {
	desc := e.Roots[0]
	for _, r := range reviewedExec {
		if strings.HasPrefix(desc, r.prefix) {
			c.OK(rule, key, pos, desc+": "+r.why)
			return
		}
	}
	c.Bad(rule, key, pos, "unreviewed command: "+desc+" — a new spawned process may write anywhere; review it and add it to the table")
}

// R19.2a
func checkCleanupRegistered(c *Ctx) {
	w := c.W
	c.Rule("R19.2", "after every toolexecCmd call the temp-dir clean-up is deferred before any return; no process exit reachable from mainErr", 4)
	tc := w.Fn("toolexecCmd")
	if tc == nil {
		c.Undecided("R19.2", "toolexecCmd", "", "anchor function not found")
		return
	}
	for _, cs := range w.CallsToFn(tc) {
		key := w.FuncName(cs.Fn) + " clean-up after toolexecCmd"
		pos := w.Pos(cs.Instr.Pos())
		// find a defer in the same function, after the call, whose callee (or closure) removes a temp root
		var deferIn ssa.Instruction
		for _, b := range cs.Fn.Blocks {
			for _, in := range b.Instrs {
				d, ok := in.(*ssa.Defer)
				if !ok || !dominatesInstr(cs.Instr, d) {
					continue
				}
				removes := false
				if calleeName(d) == "os.RemoveAll" {
					removes = true
				}
				if fn := closureFn(d.Call.Value); fn != nil && fn.Parent() == cs.Fn {
					for _, bb := range fn.Blocks {
						for _, ii := range bb.Instrs {
							if ci, ok := ii.(ssa.CallInstruction); ok && calleeName(ci) == "os.RemoveAll" {
								removes = true
							}
						}
					}
				}
				if removes {
					deferIn = d
				}
			}
		}
		if deferIn == nil {
			c.Bad("R19.2", key, pos, "no deferred os.RemoveAll after the toolexecCmd call: the shared temp dir leaks on every exit path")
			continue
		}
		// every return reachable after the call must come after the defer
		leak := ""
		for _, r := range returnsOf(cs.Fn) {
			if dominatesInstr(cs.Instr, r) && !dominatesInstr(deferIn, r) {
				leak = w.Pos(r.Pos())
			}
		}
		if leak != "" {
			c.Bad("R19.2", key, pos, "the return at "+leak+" is reachable after toolexecCmd created the shared temp dir but before the clean-up is deferred")
		} else {
			c.OK("R19.2", key, pos, "clean-up deferred at "+w.Pos(deferIn.Pos())+" before any return")
		}
	}
}

// R19.2b
func checkNoExit(c *Ctx) {
	w := c.W
	g := w.Graph()
	me := w.Fn("mainErr")
	if me == nil {
		c.Undecided("R19.2", "mainErr", "", "anchor function not found")
		return
	}
	reach, pred := g.Reach(me)
	c.Count("functions reachable from mainErr", len(reach))
	bad := false
	for _, fn := range w.ModuleFuncs() {
		if !reach[fn] {
			continue
		}
		for name, calls := range g.Ext[fn] {
			if name == "os.Exit" || strings.HasPrefix(name, "log.Fatal") || name == "syscall.Exit" || name == "runtime.Goexit" {
				bad = true
				c.BadPath("R19.2", "process exit reachable from mainErr: "+name+" in "+w.FuncName(fn), w.Pos(calls[0].Pos()),
					name+" skips the deferred removal of the shared temp dir", g.Chain(pred, fn))
			}
		}
	}
	if !bad {
		c.OK("R19.2", "no process exit reachable from mainErr", w.Pos(me.Pos()), fmt.Sprintf("%d reachable functions call neither os.Exit nor log.Fatal*", len(reach)))
	}
}

// R19.3
func checkDebugDir(c *Ctx, effects []fsEffect) {
	w := c.W
	c.Rule("R19.3", "-debugdir: ownership edge before the first write; marker before the go command; restore on success; -a when artefacts are missing", 6)
	tc := w.Fn("toolexecCmd")
	if tc == nil {
		c.Undecided("R19.3", "toolexecCmd", "", "anchor function not found")
		return
	}
	// the probe: os.ReadDir(flagDebugDir)
	var probe *ssa.Call
	for _, cs := range w.CallsTo("os.ReadDir") {
		if cs.Fn != tc {
			continue
		}
		if r, _ := classifyPath(w, cs.Arg(0)); len(r) == 1 && r[0] == rootDebugDir {
			probe, _ = cs.Instr.(*ssa.Call)
		}
	}
	if probe == nil {
		c.Bad("R19.3", "toolexecCmd debugdir probe", w.Pos(tc.Pos()), "toolexecCmd no longer inspects the -debugdir target (os.ReadDir) before writing into it")
		return
	}
	var probeErr, probeEntries ssa.Value
	for _, r := range *probe.Referrers() {
		if ex, ok := r.(*ssa.Extract); ok {
			if ex.Index == 0 {
				probeEntries = ex
			} else {
				probeErr = ex
			}
		}
	}
	ownership := func(path []cfgEdge) (bool, bool) { // (owned, viaMarkerOrEmpty)
		errNil := false
		owned, strong := false, false
		for _, e := range path {
			cond, outcome := e.Cond()
			if cond == nil {
				continue
			}
			if v, nonNil, ok := nilTest(cond); ok && v == probeErr && outcome != nonNil {
				errNil = true
			}
		}
		for _, e := range path {
			cond, outcome := e.Cond()
			if cond == nil {
				continue
			}
			switch x := cond.(type) {
			case *ssa.Call:
				// errors.Is(err, fs.ErrNotExist) == true
				if calleeName(x) == "errors.Is" && outcome && x.Call.Args[0] == probeErr {
					if ld, ok := x.Call.Args[1].(*ssa.UnOp); ok {
						if g, ok := ld.X.(*ssa.Global); ok && g.Name() == "ErrNotExist" {
							owned = true
						}
					}
				}
			case *ssa.BinOp:
				// len(entries) == 0, together with err == nil
				if x.Op == token.EQL && outcome && errNil {
					if n, ok := constInt(x.Y); ok && n == 0 {
						if call, ok := x.X.(*ssa.Call); ok && calleeName(call) == "builtin.len" && call.Call.Args[0] == probeEntries {
							owned, strong = true, true
						}
					}
				}
				// os.Lstat(marker) err == nil
				if v, nonNil, ok := nilTest(x); ok && outcome != nonNil {
					if ex, ok := v.(*ssa.Extract); ok {
						if call, ok := ex.Tuple.(*ssa.Call); ok && (calleeName(call) == "os.Lstat" || calleeName(call) == "os.Stat") {
							ps := w.BackSlice(call.Call.Args[0], sliceOpt{})
							if ps.Consts[`".garble-debugdir"`] && ps.Globals["main.flagDebugDir"] {
								owned, strong = true, true
							}
						}
					}
				}
			}
		}
		return owned, strong
	}
	n := 0
	for _, e := range effects {
		if e.Site.Fn != tc || len(e.Roots) != 1 || e.Roots[0] != rootDebugDir {
			continue
		}
		n++
		key := fmt.Sprintf("toolexecCmd %s into -debugdir", e.Callee)
		pos := w.Pos(e.Site.Instr.Pos())
		if !dominatesInstr(probe, e.Site.Instr) {
			c.Bad("R19.3", key, pos, "this write is not dominated by the inspection of the directory's contents")
			continue
		}
		paths, ok := enumPaths(probe.Block(), e.Site.Instr.Block(), 2000)
		if !ok {
			c.Undecided("R19.3", key, pos, "too many paths between the probe and the write")
			continue
		}
		c.Count("debugdir paths enumerated", len(paths))
		bad := ""
		for _, p := range paths {
			owned, strong := ownership(p)
			if !owned {
				bad = "a path reaches " + e.Callee + " without any ownership edge (directory absent | empty | marker file present): " + w.edgesString(p)
			} else if e.Kind == "remove" && !strong {
				bad = "RemoveAll of the -debugdir target on a path that established neither 'marker present' nor 'empty': " + w.edgesString(p)
			}
		}
		if bad != "" {
			c.Bad("R19.3", key, pos, bad)
		} else {
			c.OK("R19.3", key, pos, fmt.Sprintf("all %d paths from the probe pass an ownership edge", len(paths)))
		}
	}
	if n < 3 {
		c.Bad("R19.3", "toolexecCmd writes into -debugdir", w.Pos(tc.Pos()), fmt.Sprintf("expected RemoveAll, MkdirAll and the marker WriteFile in toolexecCmd, found %d", n))
	}

	// marker written before the command is assembled
	var marker ssa.Instruction
	for _, e := range effects {
		if e.Site.Fn == tc && e.Callee == "os.WriteFile" && e.Slice != nil {
			full := w.BackSlice(e.PathArg, sliceOpt{})
			if full.Consts[`".garble-debugdir"`] {
				marker = e.Site.Instr
			}
		}
	}
	if marker == nil {
		c.Bad("R19.3", "toolexecCmd marker file", w.Pos(tc.Pos()), "the .garble-debugdir marker is no longer written: a later run will refuse or, worse, not recognise its own directory")
	} else {
		// the true edge of the enclosing flagDebugDir != "" test
		var T *ssa.BasicBlock
		for b := marker.Block(); b != nil; b = b.Idom() {
			id := b.Idom()
			if id == nil {
				break
			}
			if iff := ifOf(id); iff != nil && id.Succs[0] == b && len(b.Preds) == 1 {
				if bo, ok := iff.Cond.(*ssa.BinOp); ok && bo.Op == token.NEQ {
					if s, ok := constString(bo.Y); ok && s == "" {
						if ld, ok := bo.X.(*ssa.UnOp); ok {
							if g, ok := ld.X.(*ssa.Global); ok && g.Name() == "flagDebugDir" {
								T = b
							}
						}
					}
				}
			}
		}
		if T == nil {
			c.Undecided("R19.3", "toolexecCmd marker file", w.Pos(marker.Pos()), "the marker write is not under a flagDebugDir != \"\" test")
		} else {
			bad := ""
			for _, r := range returnsOf(tc) {
				res := retResults(r)
				if len(res) != 2 || !isNilConst(res[1]) {
					continue
				}
				if p := pathAvoiding(T, r.Block(), map[*ssa.BasicBlock]bool{marker.Block(): true}); p != nil {
					bad = w.pathString(p)
				}
			}
			if bad != "" {
				c.BadPath("R19.3", "toolexecCmd marker file", w.Pos(marker.Pos()), "with -debugdir set, the go command can be assembled without the marker having been written", bad)
			} else {
				c.OK("R19.3", "toolexecCmd marker file", w.Pos(marker.Pos()), "every success return under -debugdir passes the marker write")
			}
		}
	}

	// restore on the success path of build/test/run
	me := w.Fn("mainErr")
	restore := w.Fn("restoreDebugDirFromCache")
	okRestore := false
	if me != nil && restore != nil {
		for _, cs := range w.CallsToFn(restore) {
			if cs.Fn != me {
				continue
			}
			// dominated by the nil edge of (*exec.Cmd).Run on the command built by toolexecCmd
			for _, f := range edgeFacts(cs.Instr.Block()) {
				if v, nonNil, ok := nilTest(f.V); ok && f.Outcome != nonNil {
					if call, ok := v.(*ssa.Call); ok && calleeName(call) == "(*os/exec.Cmd).Run" {
						if w.BackSlice(call.Call.Args[0], sliceOpt{}).HasCall("mvdan.cc/garble.toolexecCmd") {
							okRestore = true
						}
					}
				}
			}
			// and its result is returned
			call := cs.Instr.(*ssa.Call)
			returned := false
			for _, r := range returnsOf(me) {
				for _, res := range retResults(r) {
					if res == ssa.Value(call) {
						returned = true
					}
				}
			}
			okRestore = okRestore && returned
		}
	}
	c.Check(okRestore, "R19.3", "mainErr restoreDebugDirFromCache", "", "restore runs after a successful go command and its error is returned",
		"restoreDebugDirFromCache is not (only) on the success path of the wrapped go command, or its result is dropped: a warm-cache -debugdir run leaves an incomplete tree")

	// -a when artefacts are missing
	okA := false
	for _, b := range tc.Blocks {
		for _, in := range b.Instrs {
			st, ok := in.(*ssa.Store)
			if !ok {
				continue
			}
			if s, ok := constString(st.Val); !ok || s != "-a" {
				continue
			}
			for _, f := range edgeFacts(b) {
				if f.Outcome && w.BackSlice(f.V, sliceOpt{}).HasCall("mvdan.cc/garble.debugDirNeedsRebuild") {
					okA = true
				}
			}
		}
	}
	if okA {
		// the appended slice reaches exec.Command
		okA = false
		for _, cs := range w.CallsTo("os/exec.Command") {
			if cs.Fn == tc && len(cs.Args()) > 1 && w.BackSlice(cs.Args()[1], sliceOpt{}).Consts[`"-a"`] {
				okA = true
			}
		}
	}
	c.Check(okA, "R19.3", "toolexecCmd forces -a when debugdir artefacts are missing", "", "\"-a\" is appended under debugDirNeedsRebuild() and reaches the go command",
		"the forced rebuild (-a) under debugDirNeedsRebuild() is gone: with warm caches -debugdir would stay incomplete")
}
