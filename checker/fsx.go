package main

import (
	"fmt"
	"go/constant"
	"go/types"
	"sort"
	"strings"

	"golang.org/x/tools/go/ssa"
)

// E8 fsx — filesystem effects of garble's own code.

// fsEffect describes one call that creates, writes, renames or removes a path.
type fsEffect struct {
	Site    CallSite
	Callee  string
	Kind    string // create | write | mkdir | mktemp | remove | rename | exec | cacheput | cachetrim | lock
	PathArg ssa.Value
	Roots   []string // classified roots of the path argument
	Slice   *Slice
	Excl    bool // created with O_EXCL or a unique-name API
}

var fsCallees = map[string]struct {
	kind string
	arg  int
}{
	"os.Create":           {"create", 0},
	"os.OpenFile":         {"create", 0},
	"os.WriteFile":        {"write", 0},
	"os.Mkdir":            {"mkdir", 0},
	"os.MkdirAll":         {"mkdir", 0},
	"os.MkdirTemp":        {"mktemp", 0},
	"os.CreateTemp":       {"mktemp", 0},
	"os.Remove":           {"remove", 0},
	"os.RemoveAll":        {"remove", 0},
	"os.Rename":           {"rename", 1},
	"os.Symlink":          {"create", 1},
	"os.Link":             {"create", 1},
	"os.Truncate":         {"write", 0},
	"os.Chmod":            {"write", 0},
	"os.Chtimes":          {"write", 0},
	"io/ioutil.WriteFile": {"write", 0},
	"github.com/rogpeppe/go-internal/cache.Open":          {"cacheopen", 0},
	"github.com/rogpeppe/go-internal/lockedfile.MutexAt":  {"lock", 0},
	"github.com/rogpeppe/go-internal/lockedfile.Create":   {"create", 0},
	"github.com/rogpeppe/go-internal/lockedfile.Write":    {"write", 0},
	"github.com/rogpeppe/go-internal/lockedfile.OpenFile": {"create", 0},
	"github.com/rogpeppe/go-internal/robustio.RemoveAll":  {"remove", 0},
	"github.com/rogpeppe/go-internal/robustio.Rename":     {"rename", 1},
}

// Roots a path can be classified as.
const (
	rootOwnTemp    = "OWN_TEMP"    // result of os.MkdirTemp in this process
	rootSharedTemp = "SHARED_TEMP" // the sharedTempDir global (own MkdirTemp in the top process, GARBLE_SHARED handed down to toolexec children)
	rootCache      = "OWN_CACHE"   // sharedCache.CacheDir
	rootDebugDir   = "DEBUGDIR"    // -debugdir
	rootProfile    = "PROFILE"     // GARBLE_WRITE_* directories
	rootEnv        = "ENV_INHERITED"
	rootSource     = "SOURCE"
	rootUnknown    = "UNKNOWN"
	rootDefaultTmp = "OS_TEMPDIR" // "" passed to MkdirTemp/CreateTemp: os.TempDir()
	rootConstRel   = "CONST"      // constant-only path
)

func classifyPath(w *World, v ssa.Value) ([]string, *Slice) {
	sl := w.BackSlice(v, sliceOpt{Depth: 5, IntoCallees: true, ToCallers: true, RootOnly: true,
		StopGlobals: []string{"main.sharedTempDir", "main.flagDebugDir", "main.sharedCache"},
		StopFields:  []string{"sharedCacheType.CacheDir", "listedPackage.Dir", "GoEnv.GOROOT", "sharedCacheType.GoCmd"}})
	roots := map[string]bool{}
	if sl.Globals["main.sharedTempDir"] {
		roots[rootSharedTemp] = true
	}
	if sl.HasCall("os.MkdirTemp") {
		roots[rootOwnTemp] = true
	}
	if sl.Fields["sharedCacheType.CacheDir"] {
		roots[rootCache] = true
	}
	if sl.Globals["main.flagDebugDir"] {
		roots[rootDebugDir] = true
	}
	for _, cv := range sl.Calls["os.Getenv"] {
		key, _ := constString(cv.(*ssa.Call).Call.Args[0])
		switch {
		case strings.HasPrefix(key, "GARBLE_WRITE_"):
			roots[rootProfile] = true
		case key == "GARBLE_CACHE":
			roots[rootCache] = true
		case key == "GARBLE_SHARED" && sl.Globals["main.sharedTempDir"]:
			// the initialiser of sharedTempDir
		default:
			roots[rootEnv+"("+key+")"] = true
		}
	}
	if sl.HasCall("os.UserCacheDir") {
		roots[rootCache] = true
	}
	if sl.Fields["listedPackage.Dir"] || sl.Fields["listedPackage.CompiledGoFiles"] || sl.Fields["listedPackage.SFiles"] || sl.Fields["listedPackage.Export"] {
		roots[rootSource] = true
	}
	if sl.Fields["GoEnv.GOROOT"] || sl.Fields["sharedCacheType.GoEnv"] || sl.Fields["sharedCacheType.GoCmd"] {
		// GOROOT/src is only ever read (copy sources, go build); a write rooted there is SOURCE
		roots[rootSource] = true
	}
	if sl.Globals["os.Args"] {
		roots[rootSource] = true
	}
	if len(roots) == 0 {
		// parameters not resolved to any caller (entry points), or pure constants
		if len(sl.Params) > 0 || len(sl.Dynamic) > 0 || sl.Cut {
			roots[rootUnknown] = true
		} else if len(sl.Consts) > 0 {
			if sl.Consts[`""`] && len(sl.Consts) == 1 {
				roots[rootDefaultTmp] = true
			} else {
				roots[rootConstRel] = true
			}
		} else {
			roots[rootUnknown] = true
		}
	}
	var out []string
	for r := range roots {
		out = append(out, r)
	}
	sort.Strings(out)
	return out, sl
}

// fsEffects enumerates every filesystem effect in module functions.
func fsEffects(w *World) []fsEffect {
	var out []fsEffect
	w.forEachInstr(func(fn *ssa.Function, in ssa.Instruction) {
		ci, ok := in.(ssa.CallInstruction)
		if !ok {
			return
		}
		name := calleeName(ci)
		cs := CallSite{fn, ci}
		if spec, ok := fsCallees[name]; ok {
			e := fsEffect{Site: cs, Callee: name, Kind: spec.kind, PathArg: cs.Arg(spec.arg)}
			if name == "os.OpenFile" {
				flags, isConst := constInt(cs.Arg(1))
				if !isConst {
					e.Kind = "create"
				} else {
					// the values of the os.O_* constants for the configuration being analysed
					oWRONLY, oRDWR, oCREATE, oEXCL, oTRUNC, oAPPEND := osFlag(w, "O_WRONLY"), osFlag(w, "O_RDWR"), osFlag(w, "O_CREATE"), osFlag(w, "O_EXCL"), osFlag(w, "O_TRUNC"), osFlag(w, "O_APPEND")
					if flags&(oWRONLY|oRDWR|oCREATE|oTRUNC|oAPPEND) == 0 {
						return // read-only open
					}
					e.Excl = flags&oEXCL != 0 && flags&oCREATE != 0
				}
			}
			if e.Kind == "mktemp" {
				e.Excl = true
			}
			e.Roots, e.Slice = classifyPath(w, e.PathArg)
			if e.Kind == "mktemp" {
				// the pattern argument names nothing; the directory argument is what matters
			}
			out = append(out, e)
			return
		}
		switch name {
		case cachePutBytes:
			out = append(out, fsEffect{Site: cs, Callee: name, Kind: "cacheput", PathArg: cs.Recv(), Roots: []string{rootCache}})
		case cacheTrim:
			out = append(out, fsEffect{Site: cs, Callee: name, Kind: "cachetrim", PathArg: cs.Recv(), Roots: []string{rootCache}})
		case "os/exec.Command":
			out = append(out, classifyExec(w, cs))
		}
	})
	return out
}

// classifyExec describes an exec.Command by its constant arguments.
func classifyExec(w *World, cs CallSite) fsEffect {
	e := fsEffect{Site: cs, Callee: "os/exec.Command", Kind: "exec"}
	var words []string
	args := cs.Args()
	collect := func(v ssa.Value) {
		if s, ok := constString(v); ok {
			words = append(words, s)
			return
		}
		words = append(words, "<"+valueDesc(v)+">")
	}
	if len(args) > 0 {
		collect(args[0])
	}
	if len(args) > 1 {
		// variadic slice: elements stored into the backing array
		if sl, ok := args[1].(*ssa.Slice); ok {
			if al, ok := sl.X.(*ssa.Alloc); ok {
				type el struct {
					idx int64
					v   ssa.Value
				}
				var els []el
				for _, r := range *al.Referrers() {
					if ia, ok := r.(*ssa.IndexAddr); ok {
						idx, _ := constInt(ia.Index)
						for _, q := range *ia.Referrers() {
							if st, ok := q.(*ssa.Store); ok {
								els = append(els, el{idx, st.Val})
							}
						}
					}
				}
				sort.Slice(els, func(i, j int) bool { return els[i].idx < els[j].idx })
				for _, x := range els {
					collect(x.v)
				}
			} else {
				words = append(words, "<"+valueDesc(args[1])+"...>")
			}
		} else if !isNilConst(args[1]) {
			words = append(words, "<"+valueDesc(args[1])+"...>")
		}
	}
	e.Roots = []string{"EXEC " + strings.Join(words, " ")}
	return e
}

func (e fsEffect) key(w *World) string {
	return fmt.Sprintf("%s %s", w.FuncName(e.Site.Fn), e.Callee)
}

// osFlag returns the value of an os.O_* constant in the loaded configuration.
func osFlag(w *World, name string) int64 {
	if p := w.All["os"]; p != nil {
		if c, ok := p.Types.Scope().Lookup(name).(*types.Const); ok {
			if v, ok := constant.Int64Val(c.Val()); ok {
				return v
			}
		}
	}
	return 0
}
