package main

import (
	"fmt"
	"go/token"
	"go/types"
	"strings"

	"golang.org/x/tools/go/ssa"
)

const (
	cacheGetFile  = "(*github.com/rogpeppe/go-internal/cache.Cache).GetFile"
	cachePutBytes = "(*github.com/rogpeppe/go-internal/cache.Cache).PutBytes"
	cacheTrim     = "(*github.com/rogpeppe/go-internal/cache.Cache).Trim"
)

func init() {
	register(&propCheck{
		id: "C07",
		explain: "Decides, on the SSA of /repo's current source, the structural clauses behind 'missing or damaged cache entries are recomputed': " +
			"(R07.1) at every Cache.GetFile call the error is only ever compared with nil and the code reached only on the miss edge neither panics, exits nor returns a freshly made error; " +
			"(R07.2) in computePkgCache every dependency whose entry is missing is recomputed recursively (or skipped for the justified no-reflect case), merged with CopyFrom, and the computed entry is stored with PutBytes under the package's own GarbleActionID before a success return; " +
			"(R07.3) PatchLinker hands out the cached linker only under checkVersion && fileExists, everything else rebuilds and re-stamps; " +
			"(R07.4) that reuse guard must depend on the content (size or digest) of the cached linker, not only on its existence; " +
			"(R07.5) the go-internal cache version /repo resolves makes GetFile fail on a data file whose size differs from the index entry; " +
			"(R07.6) garble never decides on the index-only (*cache.Cache).Get. " +
			"Does not decide that a rebuilt binary equals the cold one, nor anything about GOCACHE.",
		perConfig: checkC07,
	})
}

func checkC07(c *Ctx) {
	w := c.W
	ruleGetFileMiss(c, "R07.1")

	ruleDepCacheRecompute(c)

	// R07.3 / R07.4 ---------------------------------------------------------
	checkLinkerReuse(c, "R07.3", "R07.4")

	// R07.5 ---------------------------------------------------------------
	c.Rule("R07.5", "go-internal Cache.GetFile fails when the data file's size differs from the index entry", 1)
	checkCacheLibrary(c, "R07.5")

	// R07.6 ---------------------------------------------------------------
	// (*cache.Cache).Get reads the index entry only: it succeeds when the data file is gone
	// or truncated. A decision to skip recomputing or re-storing an entry that is taken on
	// Get never repairs a damaged entry. garble must look entries up with GetFile/GetBytes.
	c.Rule("R07.6", "cache entries are only ever looked up with a call that verifies the data file (GetFile/GetBytes), never with the index-only Get", 1)
	getName := "(*github.com/rogpeppe/go-internal/cache.Cache).Get"
	hasGet := false // positive control: the method this rule looks for exists under that name
	if p := w.All["github.com/rogpeppe/go-internal/cache"]; p != nil {
		if t, ok := p.Types.Scope().Lookup("Cache").(*types.TypeName); ok {
			if m, _, _ := types.LookupFieldOrMethod(types.NewPointer(t.Type()), true, p.Types, "Get"); m != nil {
				hasGet = true
			}
		}
	}
	if !hasGet {
		c.Undecided("R07.6", "index-only cache look-ups", "", "(*cache.Cache).Get not found in go-internal: the rule's target moved")
	} else {
		var sites []string
		for _, cs := range w.CallsTo(getName) {
			sites = append(sites, w.FuncName(cs.Fn)+" at "+w.Pos(cs.Instr.Pos()))
		}
		c.Check(len(sites) == 0, "R07.6", "index-only cache look-ups", "", "none in garble",
			"garble decides on (*cache.Cache).Get, which does not look at the data file: "+strings.Join(sites, "; ")+" — an entry whose data file is missing or truncated is taken as present and never rewritten")
	}
}

// ruleDepCacheRecompute is R07.2. It is a necessary condition of three properties: a
// lost entry is recomputed (C07), the result does not depend on which entries of the
// cache happen to be present (C03), and the reflection facts of the whole import
// graph reach every dependant (C08).
func ruleDepCacheRecompute(c *Ctx) {
	w := c.W
	c.Rule("R07.2", "computePkgCache: miss -> recursive recompute, merge (CopyFrom), store (PutBytes) before success", 6)
	cpc := w.Fn("computePkgCache")
	clo := w.Fn("computePkgCache$1")
	if cpc == nil || clo == nil {
		c.Undecided("R07.2", "computePkgCache", "", "anchor function computePkgCache or its per-import closure not found")
	} else {
		copyFrom := w.Fn("(*pkgCache).CopyFrom")
		// (a) every nil-error return of the closure is dominated by CopyFrom or is the !hasDep("reflect") exit
		nilReturns := 0
		for _, r := range returnsOf(clo) {
			if res := retResults(r); len(res) != 1 || !isNilConst(res[0]) {
				continue
			}
			nilReturns++
			key := fmt.Sprintf("computePkgCache$1 success return #%d", nilReturns)
			dominated := false
			for _, cs := range w.CallsToFn(copyFrom) {
				if cs.Fn == clo && dominatesInstr(cs.Instr, r) {
					dominated = true
				}
			}
			if dominated {
				c.OK("R07.2", key, w.Pos(r.Pos()), "dominated by (*pkgCache).CopyFrom: the dependency's facts are merged")
				continue
			}
			// justified skip: reached only when hasDep("reflect") is false
			just := false
			for _, f := range edgeFacts(r.Block()) {
				if call, ok := f.V.(*ssa.Call); ok && !f.Outcome && calleeName(call) == "(*mvdan.cc/garble.listedPackage).hasDep" {
					if s, ok := constString(call.Call.Args[1]); ok && s == "reflect" {
						just = true
					}
				}
			}
			if just {
				c.OK("R07.2", key, w.Pos(r.Pos()), "justified skip: dependency does not import reflect, it has no facts")
			} else {
				c.Bad("R07.2", key, w.Pos(r.Pos()), "the per-import closure returns success without merging the dependency's reflection facts (no CopyFrom on this path, and not the !hasDep(\"reflect\") exit)")
			}
		}
		// (b) on the miss path the closure reaches a recursive computePkgCache call
		recursive := 0
		for _, cs := range w.CallsToFn(cpc) {
			if cs.Fn == clo {
				recursive++
				// it must be in the miss region of the closure's GetFile
				c.OK("R07.2", "computePkgCache$1 recursive recompute", w.Pos(cs.Instr.Pos()), "missing dependency entry is recomputed by a recursive computePkgCache call")
			}
		}
		if recursive == 0 {
			c.Bad("R07.2", "computePkgCache$1 recursive recompute", w.Pos(clo.Pos()), "no recursive computePkgCache call left on the miss path of a dependency")
		}
		// (c) the closure is invoked for every import inside the loop and its error returned
		// (d) success returns of computePkgCache itself: PutBytes with lpkg.GarbleActionID first, except the !hasDep exit
		n := 0
		for _, r := range returnsOf(cpc) {
			if res := retResults(r); len(res) != 2 || !isNilConst(res[1]) {
				continue
			}
			n++
			key := fmt.Sprintf("computePkgCache success return #%d", n)
			var put *CallSite
			for _, cs := range w.CallsTo(cachePutBytes) {
				if cs.Fn == cpc && dominatesInstr(cs.Instr, r) {
					cs := cs
					put = &cs
				}
			}
			if put != nil {
				// the id the entry is stored under must be the one loadPkgCache looks it up with:
				// lpkg.GarbleActionID on both sides, or the same key function of the package on both sides
				shape := func(v ssa.Value) string {
					vs := w.BackSlice(v, sliceOpt{})
					if len(vs.Calls) == 0 && vs.Fields["listedPackage.GarbleActionID"] {
						return "field GarbleActionID"
					}
					if len(vs.Calls) == 1 {
						for name := range vs.Calls {
							return "call " + name
						}
					}
					return "?" + vs.Summary()
				}
				writer, reader := shape(put.Arg(0)), ""
				if lp := w.Fn("loadPkgCache"); lp != nil {
					for _, gcs := range w.CallsTo(cacheGetFile) {
						if gcs.Fn == lp {
							reader = shape(gcs.Arg(0))
						}
					}
				}
				if writer == reader && !strings.HasPrefix(writer, "?") {
					c.OK("R07.2", key, w.Pos(r.Pos()), "computed entry stored under the id loadPkgCache looks it up with ("+writer+"), before returning")
				} else {
					c.Bad("R07.2", key, w.Pos(put.Instr.Pos()), "the computed entry is stored under "+writer+" but loadPkgCache looks it up under "+reader+": the entry is never found again, or a stale one is")
				}
				continue
			}
			just := false
			for _, f := range edgeFacts(r.Block()) {
				if call, ok := f.V.(*ssa.Call); ok && !f.Outcome && calleeName(call) == "(*mvdan.cc/garble.listedPackage).hasDep" {
					just = true
				}
			}
			if just {
				c.OK("R07.2", key, w.Pos(r.Pos()), "early exit for packages that do not import reflect: constant result, nothing to store")
			} else {
				c.Bad("R07.2", key, w.Pos(r.Pos()), "computePkgCache returns a computed entry without storing it (no dominating PutBytes)")
			}
		}
		// (e) the result of the closure is checked: an error from it is returned
		called := false
		for _, b := range cpc.Blocks {
			for _, in := range b.Instrs {
				if call, ok := in.(*ssa.Call); ok {
					if mc, ok := call.Call.Value.(*ssa.MakeClosure); ok && mc.Fn == ssa.Value(clo) {
						called = true
						used := false
						if refs := call.Referrers(); refs != nil {
							for _, r := range *refs {
								if _, _, ok := nilTest(valueOfInstr(r)); ok {
									used = true
								}
							}
						}
						c.Check(used, "R07.2", "computePkgCache per-import closure result", w.Pos(call.Pos()),
							"the closure's error is tested", "the per-import closure's error result is dropped")
					}
				}
			}
		}
		if !called {
			c.Bad("R07.2", "computePkgCache per-import closure result", w.Pos(cpc.Pos()), "the per-import closure is no longer called in place")
		}
	}

}

func valueOfInstr(in ssa.Instruction) ssa.Value {
	v, _ := in.(ssa.Value)
	return v
}

// ruleGetFileMiss implements the miss discipline at every GetFile site.
func ruleGetFileMiss(c *Ctx, rule string) {
	w := c.W
	c.Rule(rule, "every Cache.GetFile error is a miss: only compared with nil; miss-only code never panics/exits/returns a fresh error", 5)
	sites := w.CallsTo(cacheGetFile)
	c.Count("GetFile call sites", len(sites))
	perFn := map[string]int{}
	for _, cs := range sites {
		fname := w.FuncName(cs.Fn)
		perFn[fname]++
		key := fmt.Sprintf("%s GetFile#%d", fname, perFn[fname])
		pos := w.Pos(cs.Instr.Pos())
		call, ok := cs.Instr.(*ssa.Call)
		if !ok {
			c.Undecided(rule, key, pos, "GetFile used in go/defer")
			continue
		}
		// find the error component
		var errVals []ssa.Value
		if refs := call.Referrers(); refs != nil {
			for _, r := range *refs {
				if ex, ok := r.(*ssa.Extract); ok && ex.Index == 2 {
					errVals = append(errVals, ex)
				}
			}
		}
		if len(errVals) == 0 {
			c.Bad(rule, key, pos, "the error result of GetFile is ignored: a missing entry would be used as if present")
			continue
		}
		bad := ""
		var tests []*ssa.BinOp
		for _, ev := range errVals {
			for _, r := range *ev.Referrers() {
				if _, isDbg := r.(*ssa.DebugRef); isDbg {
					continue
				}
				b, ok := r.(*ssa.BinOp)
				if ok {
					if v, _, ok2 := nilTest(b); ok2 && v == ev {
						tests = append(tests, b)
						continue
					}
				}
				bad = fmt.Sprintf("the GetFile error flows into %s at %s: a cache miss would be reported as a failure instead of being recomputed", instrDesc(r), w.Pos(r.Pos()))
			}
		}
		if bad != "" {
			c.Bad(rule, key, pos, bad)
			continue
		}
		if len(tests) == 0 {
			c.Bad(rule, key, pos, "the GetFile error is never tested")
			continue
		}
		// miss-only region
		problem := ""
		for _, t := range tests {
			for _, r := range *t.Referrers() {
				iff, ok := r.(*ssa.If)
				if !ok {
					continue // e.g. "return err == nil"
				}
				_, trueNonNil, _ := nilTest(t)
				miss := iff.Block().Succs[1]
				if trueNonNil {
					miss = iff.Block().Succs[0]
				}
				if len(miss.Preds) != 1 {
					continue // the miss edge merges at once: no miss-only code
				}
				for _, b := range cs.Fn.Blocks {
					if !miss.Dominates(b) {
						continue
					}
					for _, in := range b.Instrs {
						switch x := in.(type) {
						case *ssa.Panic:
							problem = "panic at " + w.Pos(x.Pos()) + " is reached only on a cache miss"
						case ssa.CallInstruction:
							n := calleeName(x)
							if n == "os.Exit" || strings.HasPrefix(n, "log.Fatal") || strings.HasPrefix(n, "log.Panic") {
								problem = n + " at " + w.Pos(x.Pos()) + " is reached only on a cache miss"
							}
						case *ssa.Return:
							for _, res := range retResults(x) {
								if !isErrorType(res.Type()) {
									continue
								}
								if why := freshError(w, res); why != "" {
									problem = "return at " + w.Pos(x.Pos()) + " on the miss-only path yields a new error (" + why + ") instead of recomputing"
								}
							}
						}
					}
				}
			}
		}
		if problem != "" {
			c.Bad(rule, key, pos, problem)
		} else {
			c.OK(rule, key, pos, "error only compared with nil; miss-only region is clean")
		}
	}
}

// freshError reports why an error-typed value is a newly constructed error that
// does not wrap the failure of a (re)computation, or "" if it is nil or comes
// from a computation.
func freshError(w *World, v ssa.Value) string {
	if isNilConst(v) {
		return ""
	}
	sl := w.BackSlice(v, sliceOpt{})
	constructor := ""
	for _, n := range sl.CallNames() {
		switch n {
		case "fmt.Errorf", "errors.New", "errors.Join":
			constructor = n
		}
	}
	for val := range sl.Values {
		if mi, ok := val.(*ssa.MakeInterface); ok && isErrorType(mi.Type()) {
			if _, isConst := mi.X.(*ssa.Const); isConst || !isErrorType(mi.X.Type()) {
				constructor = "conversion of " + mi.X.Type().String() + " to error"
			}
		}
	}
	if constructor == "" {
		return ""
	}
	// wrapping an error produced by a computation is fine: an error *value* from a call
	// (not just data from a call that also returns an error) flows into the result
	for val := range sl.Values {
		switch x := val.(type) {
		case *ssa.Extract:
			if isErrorType(x.Type()) {
				return ""
			}
		case *ssa.Call:
			if calleeName(x) == constructor {
				continue
			}
			if res := x.Call.Signature().Results(); res.Len() == 1 && isErrorType(res.At(0).Type()) {
				return ""
			}
		}
	}
	return constructor
}

func instrDesc(in ssa.Instruction) string {
	switch x := in.(type) {
	case *ssa.Return:
		return "a return"
	case *ssa.Panic:
		return "a panic"
	case ssa.CallInstruction:
		return "a call to " + calleeName(x)
	case *ssa.Store:
		return "a store"
	case *ssa.Phi:
		return "a phi (merged value)"
	case *ssa.MakeInterface, *ssa.ChangeInterface:
		return "an interface conversion (argument of a variadic call such as fmt.Errorf)"
	}
	return fmt.Sprintf("%T", in)
}

// checkLinkerReuse: R07.3 (reuse only under stamp && file) and R07.4 (guard binds content).
func checkLinkerReuse(c *Ctx, r3, r4 string) {
	w := c.W
	c.Rule(r3, "PatchLinker: every success return is a rebuild+stamp or the guarded reuse (checkVersion && fileExists)", 2)
	c.Rule(r4, "PatchLinker: the reuse guard depends on the cached linker's content (size/digest), not only its existence", 1)
	pl := w.Fn("linker.PatchLinker")
	if pl == nil {
		c.Undecided(r3, "linker.PatchLinker", "", "anchor function not found")
		return
	}
	const (
		fnCheckVersion = "mvdan.cc/garble/internal/linker.checkVersion"
		fnFileExists   = "mvdan.cc/garble/internal/linker.fileExists"
		fnWriteVersion = "mvdan.cc/garble/internal/linker.writeVersion"
		fnBuildLinker  = "mvdan.cc/garble/internal/linker.buildLinker"
	)
	n := 0
	for _, ret := range returnsOf(pl) {
		if res := retResults(ret); len(res) != 3 || !isNilConst(res[2]) {
			continue
		}
		n++
		pos := w.Pos(ret.Pos())
		// rebuilt now?
		var wv, bl ssa.Instruction
		for _, cs := range w.CallsTo(fnWriteVersion) {
			if cs.Fn == pl && dominatesInstr(cs.Instr, ret) {
				wv = cs.Instr
			}
		}
		for _, cs := range w.CallsTo(fnBuildLinker) {
			if cs.Fn == pl && dominatesInstr(cs.Instr, ret) {
				bl = cs.Instr
			}
		}
		if wv != nil && bl != nil {
			c.Check(dominatesInstr(bl, wv), r3, "linker.PatchLinker success return after rebuild", pos,
				"buildLinker dominates writeVersion dominates the return", "the stamp is written before the linker is built")
			continue
		}
		if wv != nil || bl != nil {
			c.Bad(r3, "linker.PatchLinker success return after rebuild", pos, "success return after only one of buildLinker/writeVersion")
			continue
		}
		// reuse return: needs both facts
		haveVer, haveFile := false, false
		var guardVals []ssa.Value
		for _, f := range edgeFacts(ret.Block()) {
			if !f.Outcome {
				continue
			}
			sl := w.BackSlice(f.V, sliceOpt{})
			if sl.HasCall(fnCheckVersion) {
				haveVer = true
				guardVals = append(guardVals, f.V)
			}
			if sl.HasCall(fnFileExists) {
				haveFile = true
				guardVals = append(guardVals, f.V)
			}
		}
		key := "linker.PatchLinker reuse return"
		if haveVer && haveFile {
			c.OK(r3, key, pos, "reuse is dominated by the true edges of checkVersion(...) and fileExists(outputLinkPath)")
		} else {
			c.Bad(r3, key, pos, fmt.Sprintf("the cached linker is handed out without both guards (stamp matches: %v, file exists: %v)", haveVer, haveFile))
		}
		// R07.4: content binding
		bound := false
		var deps []string
		for _, gv := range guardVals {
			sl := w.BackSlice(gv, sliceOpt{Depth: 3, IntoCallees: true})
			for _, nme := range sl.CallNames() {
				deps = append(deps, nme)
				switch nme {
				case "(io/fs.FileInfo).Size", "(os.FileInfo).Size":
					bound = true
				case "os.ReadFile", "os.Open":
					// reading the linker binary itself (not the ".version" stamp next to it)
					for _, cv := range sl.Calls[nme] {
						ps := w.BackSlice(cv.(*ssa.Call).Call.Args[0], sliceOpt{Depth: 3, ToCallers: true})
						if !ps.Consts[`".version"`] {
							bound = true
						}
					}
				}
			}
		}
		if bound {
			c.OK(r4, key, pos, "the reuse guard depends on the linker file's size or digest")
		} else {
			c.Bad(r4, key, pos, "the reuse guard depends only on: "+strings.Join(dedup(deps), ", ")+" — a truncated or empty tool/link next to a matching stamp is trusted")
		}
	}
	if n == 0 {
		c.Bad(r3, "linker.PatchLinker", w.Pos(pl.Pos()), "no success return found")
	}
}

func dedup(in []string) []string {
	seen := map[string]bool{}
	var out []string
	for _, s := range in {
		if !seen[s] {
			seen[s] = true
			out = append(out, s)
		}
	}
	return out
}

// checkCacheLibrary looks at the go-internal cache package /repo resolves.
func checkCacheLibrary(c *Ctx, rule string) {
	w := c.W
	p := w.All["github.com/rogpeppe/go-internal/cache"]
	if p == nil {
		c.Undecided(rule, "cache.GetFile", "", "package github.com/rogpeppe/go-internal/cache is not in the closure")
		return
	}
	sp := w.Prog.Package(p.Types)
	sp.Build()
	var getFile *ssa.Function
	if t, ok := p.Types.Scope().Lookup("Cache").(*types.TypeName); ok {
		getFile = w.Prog.LookupMethod(types.NewPointer(t.Type()), p.Types, "GetFile")
	}
	if getFile == nil || len(getFile.Blocks) == 0 {
		c.Undecided(rule, "cache.GetFile", "", "(*cache.Cache).GetFile not found")
		return
	}
	key := "go-internal " + moduleVersion(p) + " (*Cache).GetFile"
	for _, r := range returnsOf(getFile) {
		if res := retResults(r); len(res) != 3 || !isNilConst(res[2]) {
			continue
		}
		ok := false
		for _, f := range edgeFacts(r.Block()) {
			b, isBin := f.V.(*ssa.BinOp)
			if !isBin {
				continue
			}
			sl := w.BackSlice(b, sliceOpt{})
			sizeCmp := sl.HasCall("(io/fs.FileInfo).Size") && sl.Fields["Entry.Size"]
			if sizeCmp && ((b.Op == token.NEQ && !f.Outcome) || (b.Op == token.EQL && f.Outcome)) {
				ok = true
			}
		}
		c.Check(ok, rule, key, w.Pos(r.Pos()), "success return only when info.Size() == entry.Size",
			"GetFile's success return is not guarded by a comparison of the data file's size with the index entry: truncated data files would be trusted")
	}
}
