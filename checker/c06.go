package main

import (
	"fmt"
	"go/token"
	"sort"
	"strings"

	"golang.org/x/tools/go/ssa"
)

func init() {
	register(&propCheck{
		id: "C06",
		explain: "Decides the cache-key clauses behind 'cached builds never go stale': " +
			"(R06.1) every configuration item (garble flag, sharedCache field, environment variable, cross-package option) read by code that computes compiler/assembler/linker input either influences what addGarbleToHash writes to the hasher (appendFlags specialised for forBuildHash=true by constant propagation; data and control influence on live writes) or is in the exemption table with its reason; " +
			"(R06.2) every id given to Cache.PutBytes/GetFile is a package's GarbleActionID or sha256(GarbleActionID || distinct constant [|| kind]), and each kind is written and read through the same derivation; " +
			"(R06.3) GarbleActionID has one definition, addGarbleToHash(actionID(BuildID)); " +
			"(R06.4) -V=full is answered, for every tool that has a transform, with a build id computed by addGarbleToHash; " +
			"(R06.5) the linker stamp compared and written is getCurrentVersion(goVersion, hash of every patch file's bytes) with the same operands on both sides; " +
			"(R06.8) the key of a package's entry in garble's own cache, which also holds what was learned about its dependencies, depends on the dependencies' action IDs; " +
			"(R06.7) under -literals the name of every -X variable goes into the build hash, without a filter; " +
			"(R06.6) a value that garble compiles into package P and derives from a GarbleActionID uses P's own action ID: cmd/go recompiles P only when P's action ID changes. " +
			"Does not decide the completeness of cmd/go's own action IDs nor that an unchanged rebuild recompiles nothing.",
		perConfig: checkC06,
	})
}

// Exemptions for R06.1: configuration read in the tool-input region that need
// not be part of garble's build hash.
var configExempt = map[string]string{
	"flag:debug":                "only enables log output",
	"flag:debugdir":             "side output only: where copies of sources are written; never part of tool input",
	"env:GARBLE_SHARED":         "location of the shared temp dir; trimmed from recorded paths (-trimpath)",
	"shared:CacheDir":           "location of garble's cache",
	"shared:ListedPackages":     "go list facts; their inputs (sources, tags, GOOS/GOARCH) are part of cmd/go's own action IDs, which GarbleActionID wraps",
	"shared:GoEnv.GOARCH":       "target architecture: part of cmd/go's action IDs",
	"shared:GoEnv.GOOS":         "target OS: part of cmd/go's action IDs",
	"shared:GoEnv.GOROOT":       "toolchain location: the toolchain's identity is in the tool version string garble extends",
	"shared:GoEnv.GOVERSION":    "toolchain version: in the tool version string garble extends, and in the linker stamp (R06.5)",
	"shared:GoCmd":              "path of the go command",
	"env:TOOLEXEC_IMPORTPATH":   "names the package being built; set by cmd/go per action",
	"env:GARBLE_TEST_GOVERSION": "test hook for the version check",
}

func checkC06(c *Ctx) {
	w := c.W
	g := w.Graph()
	globals := configGlobals(w)
	var gnames []string
	for _, item := range globals {
		gnames = append(gnames, item)
	}
	sort.Strings(gnames)
	c.Notes = append(c.Notes, "configuration variables discovered: "+strings.Join(gnames, ", "))
	c.Count("configuration variables", len(globals))

	// region: same as the determinism region
	var roots []*ssa.Function
	for _, n := range detRegionRoots {
		if fn := w.Fn(n); fn != nil {
			roots = append(roots, fn)
		}
	}
	region, pred := g.Reach(roots...)
	// the linker package only rebuilds the patched linker: its inputs are covered by R06.5
	for fn := range region {
		if fn.Pkg != nil && strings.HasSuffix(fn.Pkg.Pkg.Path(), "/internal/linker") {
			delete(region, fn)
		}
	}
	c.Count("functions in the tool-input region", len(region))

	hashed, problems := hashedConfig(w, globals)
	c.Rule("R06.1", "every configuration item read where tool input is computed is hashed by addGarbleToHash or exempt with a reason", 10)
	for _, p := range problems {
		c.Bad("R06.1", "hash specialisation", "", p)
	}
	c.Notes = append(c.Notes, "HASHED = "+strings.Join(sortedKeys(hashed), ", "))
	reads := configReads(w, region, globals)
	c.Count("configuration reads in the region", len(reads))
	type agg struct {
		n     int
		first configRead
		fns   map[string]bool
	}
	byItem := map[string]*agg{}
	for _, r := range reads {
		a := byItem[r.Item]
		if a == nil {
			a = &agg{first: r, fns: map[string]bool{}}
			byItem[r.Item] = a
		}
		a.n++
		a.fns[w.FuncName(r.Fn)] = true
	}
	for _, item := range sortedKeys(byItem) {
		a := byItem[item]
		pos := w.Pos(a.first.Instr.Pos())
		fns := strings.Join(sortedKeys(a.fns), ", ")
		switch {
		case hashed[item] != "":
			c.OK("R06.1", item, pos, fmt.Sprintf("hashed (write at %s); read %d times in %s", hashed[item], a.n, fns))
		case configExempt[item] != "":
			c.OK("R06.1", item, pos, fmt.Sprintf("exempt: %s; read in %s", configExempt[item], fns))
		default:
			c.BadPath("R06.1", item, pos, fmt.Sprintf("%s is read where compiler/linker input is computed (%s) but is neither part of garble's build hash nor exempt: a change of it between two builds on the same caches reuses stale objects", item, fns),
				g.Chain(pred, a.first.Fn))
		}
	}
	// required members of HASHED (the statement names them)
	for _, must := range []string{"shared:BinaryContentID", "shared:GOGARBLE", "flag:literals", "flag:tiny", "flag:seed", "env:GARBLE_EXPERIMENTAL_CONTROLFLOW"} {
		c.Check(hashed[must] != "", "R06.1", "hashed "+must, hashed[must], "influences the bytes written to the hasher", must+" no longer influences garble's build hash: builds that differ in it share cache entries")
	}

	checkCacheIDs(c)
	checkActionIDDef(c)
	checkToolVersion(c)
	checkLinkerStamp(c)
	checkForeignActionIDs(c)
	checkXNamesHashed(c)
	checkPkgCacheKey(c)
}

// R06.2
func checkCacheIDs(c *Ctx) {
	w := c.W
	c.Rule("R06.2", "cache ids are GarbleActionID or a derivation with a distinct constant; writer and readers of a kind agree", 8)
	type use struct {
		cs   CallSite
		kind string // "" for the plain id, else derivation function name
		put  bool
	}
	var uses []use
	deriv := map[string]*ssa.Function{}
	for _, cs := range w.CallsTo(cachePutBytes, cacheGetFile) {
		u := use{cs: cs, put: calleeName(cs.Instr) == cachePutBytes}
		key := fmt.Sprintf("%s %s", w.FuncName(cs.Fn), shortCallee(calleeName(cs.Instr)))
		pos := w.Pos(cs.Instr.Pos())
		id := cs.Arg(0)
		sl := w.BackSlice(id, sliceOpt{})
		// shape of the id expression itself
		base := id
		for {
			if ct, ok := base.(*ssa.ChangeType); ok {
				base = ct.X
				continue
			}
			if ld, ok := base.(*ssa.UnOp); ok {
				base = ld.X
				continue
			}
			break
		}
		switch x := base.(type) {
		case *ssa.FieldAddr:
			if fieldName(x.X.Type(), x.Field) == "GarbleActionID" && namedOf(x.X.Type()) == "listedPackage" {
				c.OK("R06.2", key, pos, "id = GarbleActionID of the package")
			} else {
				c.Bad("R06.2", key, pos, "the cache id is the field "+fieldName(x.X.Type(), x.Field)+", not GarbleActionID")
			}
		case *ssa.Call:
			fn := x.Call.StaticCallee()
			if fn == nil || !w.isModuleFn(fn) || len(fn.Params) == 0 {
				c.Bad("R06.2", key, pos, "the cache id comes from "+calleeName(x)+", not from a derivation of GarbleActionID")
				break
			}
			u.kind = w.FuncName(fn)
			deriv[u.kind] = fn
			as := w.BackSlice(x.Call.Args[0], sliceOpt{})
			if as.Fields["listedPackage.GarbleActionID"] && len(as.Calls) == 0 || isGarbleActionIDParam(w, x.Call.Args[0]) {
				c.OK("R06.2", key, pos, "id = "+u.kind+"(GarbleActionID, ...)")
			} else if namedOf(x.Call.Args[0].Type()) == "listedPackage" && readsOwnActionID(fn) {
				c.OK("R06.2", key, pos, "id = "+u.kind+"(package): derived from the package's GarbleActionID inside")
			} else {
				c.Bad("R06.2", key, pos, "the cache id is derived by "+u.kind+" from something other than the package's GarbleActionID ("+as.Summary()+"): it does not change when the package's build inputs change")
			}
		default:
			c.Bad("R06.2", key, pos, "the cache id is not GarbleActionID nor a reviewed derivation of it: "+sl.Summary())
		}
		uses = append(uses, u)
	}
	// derivation functions: sha256 over the id parameter and a constant; constants pairwise distinct
	consts := map[string]string{}
	for _, name := range sortedKeys(deriv) {
		fn := deriv[name]
		var tag string
		idWritten := false
		for _, b := range fn.Blocks {
			for _, in := range b.Instrs {
				ci, ok := in.(ssa.CallInstruction)
				if !ok || calleeName(ci) != "(io.Writer).Write" && calleeName(ci) != "(hash.Hash).Write" {
					continue
				}
				sl := w.BackSlice(ci.Common().Args[len(ci.Common().Args)-1], sliceOpt{})
				for p := range sl.Params {
					if p == fn.Params[0] {
						idWritten = true
					}
				}
				for k := range sl.Consts {
					if strings.HasPrefix(k, `"`) && len(k) > 4 {
						tag = k
					}
				}
			}
		}
		key := "derivation " + name
		if namedOf(fn.Params[0].Type()) == "listedPackage" {
			// a derivation from the package: its own action ID first, then those of its dependencies
			// (no constant: the input is at least 32 bytes longer than any other kind's unless there are no
			// dependencies, in which case it is sha256(id), which no other kind uses)
			ok := readsOwnActionID(fn) && usesSha256(fn)
			c.Check(ok, "R06.2", key, w.Pos(fn.Pos()), "sha256(GarbleActionID of the package || GarbleActionIDs of its dependencies)",
				name+" does not hash the package's own GarbleActionID: the id does not change with the package's build inputs")
			continue
		}
		if !idWritten || tag == "" || !w.BackSlice(returnsOf(fn)[0].Results[0], sliceOpt{}).HasCall("(hash.Hash).Sum") {
			c.Bad("R06.2", key, w.Pos(fn.Pos()), fmt.Sprintf("%s is not sha256(id || constant ...): id written=%v constant=%q", name, idWritten, tag))
			continue
		}
		if other, dup := consts[tag]; dup {
			c.Bad("R06.2", key, w.Pos(fn.Pos()), fmt.Sprintf("%s and %s use the same domain-separation constant %s: two kinds of entries share ids", name, other, tag))
			continue
		}
		consts[tag] = name
		c.OK("R06.2", key, w.Pos(fn.Pos()), "sha256(id || "+tag+" ...)")
	}
	// each kind has a writer and a reader
	for _, kind := range append([]string{""}, sortedKeys(deriv)...) {
		puts, gets := 0, 0
		for _, u := range uses {
			if u.kind == kind {
				if u.put {
					puts++
				} else {
					gets++
				}
			}
		}
		label := kind
		if label == "" {
			label = "GarbleActionID"
			if puts == 0 && gets == 0 {
				continue // no entry is keyed by the plain id
			}
		}
		c.Check(puts > 0 && gets > 0, "R06.2", "kind "+label+" written and read", "", fmt.Sprintf("%d PutBytes, %d GetFile", puts, gets),
			fmt.Sprintf("entries keyed by %s have %d writers and %d readers: writer and reader no longer use the same derivation", label, puts, gets))
	}
	// the kind strings of the debug artefacts: same set on both sides
	if fn := deriv["debugArtifactsCacheID"]; fn != nil && len(fn.Params) > 1 {
		wk, rk := map[string]bool{}, map[string]bool{}
		for _, cs := range w.CallsToFn(fn) {
			sl := w.BackSlice(cs.Args()[1], sliceOpt{Depth: 4, ToCallers: true})
			// is this call on a writer or a reader path?
			writer := false
			for _, b := range cs.Fn.Blocks {
				for _, in := range b.Instrs {
					if ci, ok := in.(ssa.CallInstruction); ok && calleeName(ci) == cachePutBytes {
						writer = true
					}
				}
			}
			for k := range sl.Consts {
				if strings.HasPrefix(k, `"`) {
					if writer {
						wk[k] = true
					} else {
						rk[k] = true
					}
				}
			}
		}
		same := len(wk) == len(rk) && len(wk) > 0
		for k := range wk {
			if !rk[k] {
				same = false
			}
		}
		c.Check(same, "R06.2", "debug artefact kinds", w.Pos(fn.Pos()), "written kinds = read kinds = "+strings.Join(sortedKeys(wk), ","),
			fmt.Sprintf("debug artefact kinds written %v differ from kinds read %v", sortedKeys(wk), sortedKeys(rk)))
	}
}

// readsOwnActionID: fn writes <its first parameter>.GarbleActionID into a hash.
func readsOwnActionID(fn *ssa.Function) bool {
	for _, b := range fn.Blocks {
		for _, in := range b.Instrs {
			fa, ok := in.(*ssa.FieldAddr)
			if ok && fieldName(fa.X.Type(), fa.Field) == "GarbleActionID" && len(fn.Params) > 0 && fa.X == ssa.Value(fn.Params[0]) {
				return true
			}
		}
	}
	return false
}

func usesSha256(fn *ssa.Function) bool {
	for _, b := range fn.Blocks {
		for _, in := range b.Instrs {
			if call, ok := in.(*ssa.Call); ok && calleeName(call) == "crypto/sha256.New" {
				return true
			}
		}
	}
	return false
}

// isGarbleActionIDParam: the value is lpkg.GarbleActionID where lpkg may come from any lookup.
func isGarbleActionIDParam(w *World, v ssa.Value) bool {
	for {
		switch x := v.(type) {
		case *ssa.ChangeType:
			v = x.X
			continue
		case *ssa.UnOp:
			v = x.X
			continue
		case *ssa.FieldAddr:
			return fieldName(x.X.Type(), x.Field) == "GarbleActionID" && namedOf(x.X.Type()) == "listedPackage"
		}
		return false
	}
}

func shortCallee(n string) string {
	if i := strings.LastIndex(n, "."); i >= 0 {
		return n[i+1:]
	}
	return n
}

// R06.3
func checkActionIDDef(c *Ctx) {
	w := c.W
	c.Rule("R06.3", "GarbleActionID has one definition: addGarbleToHash(action id of the package's BuildID)", 1)
	n := 0
	w.forEachInstr(func(fn *ssa.Function, in ssa.Instruction) {
		st, ok := in.(*ssa.Store)
		if !ok {
			return
		}
		fa, ok := st.Addr.(*ssa.FieldAddr)
		if !ok || fieldName(fa.X.Type(), fa.Field) != "GarbleActionID" || namedOf(fa.X.Type()) != "listedPackage" {
			return
		}
		name := w.FuncName(fn)
		if strings.HasSuffix(name, ".UnmarshalMsg") {
			return // decoding what the top-level process stored
		}
		n++
		sl := w.BackSlice(st.Val, sliceOpt{})
		ok2 := sl.HasCall("mvdan.cc/garble.addGarbleToHash") && sl.HasCall("mvdan.cc/garble.splitActionID") && sl.Fields["listedPackage.BuildID"]
		c.Check(ok2 && name == "appendListedPackages", "R06.3", "store to GarbleActionID in "+name, w.Pos(st.Pos()),
			"addGarbleToHash(decodeBuildIDHash(splitActionID(pkg.BuildID)))", "GarbleActionID is (also) computed as: "+sl.Summary())
	})
	// msgp decodes into the field through a slice copy, not a Store of the field: nothing else to find
	if n == 0 {
		c.Bad("R06.3", "store to GarbleActionID", "", "no definition of GarbleActionID found")
	}
}

// R06.4
func checkToolVersion(c *Ctx) {
	w := c.W
	c.Rule("R06.4", "-V=full of every transformed tool is answered with a content id from addGarbleToHash", 2)
	atv := w.Fn("alterToolVersion")
	me := w.Fn("mainErr")
	if atv == nil || me == nil {
		c.Undecided("R06.4", "alterToolVersion", "", "anchor functions not found")
		return
	}
	// the printed line contains encodeBuildIDHash(addGarbleToHash(...))
	okPrint := false
	for _, cs := range w.CallsTo("fmt.Printf") {
		if cs.Fn != atv {
			continue
		}
		sl := w.BackSlice(cs.Args()[1], sliceOpt{})
		if sl.HasCall("mvdan.cc/garble.addGarbleToHash") && sl.HasCall("mvdan.cc/garble.encodeBuildIDHash") {
			// and it is on every success return
			okPrint = true
			for _, r := range returnsOf(atv) {
				if res := retResults(r); isNilConst(res[0]) && !dominatesInstr(cs.Instr, r) {
					okPrint = false
				}
			}
		}
	}
	c.Check(okPrint, "R06.4", "alterToolVersion prints the garble content id", w.Pos(atv.Pos()), "every success return is preceded by printing encodeBuildIDHash(addGarbleToHash(toolID))",
		"alterToolVersion can succeed without reporting a build id that covers garble's inputs: cmd/go would key compiled packages by the plain tool version")
	// routing in mainErr: under transform != nil, before the transform runs
	okRoute := false
	for _, cs := range w.CallsToFn(atv) {
		if cs.Fn != me {
			continue
		}
		hasTransform, isVFull := false, false
		for _, f := range edgeFacts(cs.Instr.Block()) {
			if v, nonNil, ok := nilTest(f.V); ok && f.Outcome == nonNil {
				if w.BackSlice(v, sliceOpt{}).Globals["main.transformMethods"] {
					hasTransform = true
				}
			}
			if f.Outcome && w.BackSlice(f.V, sliceOpt{}).Consts[`"-V=full"`] {
				isVFull = true
			}
		}
		okRoute = hasTransform && isVFull
	}
	c.Check(okRoute, "R06.4", "mainErr routes -V=full to alterToolVersion", w.Pos(me.Pos()), "for every tool with an entry in transformMethods",
		"mainErr no longer answers -V=full through alterToolVersion for the transformed tools")
}

// R06.5
func checkLinkerStamp(c *Ctx) {
	w := c.W
	c.Rule("R06.5", "linker stamp = getCurrentVersion(goVersion, hash over every patch file); compared and written with the same operands", 3)
	pl := w.Fn("linker.PatchLinker")
	if pl == nil {
		c.Undecided("R06.5", "linker.PatchLinker", "", "anchor function not found")
		return
	}
	var chk, wr *CallSite
	for _, cs := range w.CallsTo("mvdan.cc/garble/internal/linker.checkVersion") {
		if cs.Fn == pl {
			cs := cs
			chk = &cs
		}
	}
	for _, cs := range w.CallsTo("mvdan.cc/garble/internal/linker.writeVersion") {
		if cs.Fn == pl {
			cs := cs
			wr = &cs
		}
	}
	if chk == nil || wr == nil {
		c.Bad("R06.5", "PatchLinker stamp calls", w.Pos(pl.Pos()), "checkVersion or writeVersion is no longer called from PatchLinker")
		return
	}
	same := len(chk.Args()) == 3 && len(wr.Args()) == 3
	for i := 0; same && i < 3; i++ {
		if chk.Args()[i] != wr.Args()[i] {
			same = false
		}
	}
	c.Check(same, "R06.5", "PatchLinker stamp operands", w.Pos(chk.Instr.Pos()), "checkVersion and writeVersion receive the same (path, goVersion, patchesVer)",
		"the stamp that is compared is not the stamp that is written: the linker would be rebuilt on every build, or a stale one reused")
	// both go through getCurrentVersion
	both := true
	for _, n := range []string{"linker.checkVersion", "linker.writeVersion"} {
		fn := w.Fn(n)
		found := false
		if fn != nil {
			for _, cs := range w.CallsTo("mvdan.cc/garble/internal/linker.getCurrentVersion") {
				if cs.Fn == fn {
					found = true
				}
			}
		}
		both = both && found
	}
	c.Check(both, "R06.5", "stamp text", "", "checkVersion and writeVersion both use getCurrentVersion", "the compared and the written stamp text are built differently")
	// patchesVer covers every patch file
	llp := w.Fn("linker.loadLinkerPatches")
	okHash := false
	if llp != nil && same {
		ver := w.BackSlice(chk.Args()[2], sliceOpt{Depth: 2, IntoCallees: true})
		if ver.HasCall("(hash.Hash).Sum") {
			// inside the WalkDir callback: Write(patchBytes) where patchBytes comes from ReadFile(path), not after a filtering return
			for _, cs := range w.CallsTo("(io.Writer).Write", "(hash.Hash).Write") {
				if cs.Fn.Parent() == llp {
					sl := w.BackSlice(cs.Args()[0], sliceOpt{})
					if sl.HasCall("(embed.FS).ReadFile") {
						okHash = true
					}
				}
			}
		}
	}
	c.Check(okHash, "R06.5", "patch hash covers every patch file", "", "each walked patch file's bytes are written to the version hash",
		"the linker stamp no longer depends on the bytes of every embedded patch: an edited patch would not rebuild the cached linker")
}

// R06.6. While compiling package P, garble patches two constants into the standard library
// that are derived from the GarbleActionID of a package named by a constant path. cmd/go
// caches P's object under P's own action ID, so the path must be P itself: a value taken
// from another package's action ID (one that P does not depend on) goes stale in GOCACHE
// when only that package is rebuilt, while the link step computes the new value.
func checkForeignActionIDs(c *Ctx) {
	w := c.W
	c.Rule("R06.6", "a value compiled into package P and derived from a GarbleActionID uses P's own action ID", 2)
	tc := w.Fn("(*transformer).transformCompile")
	if tc == nil {
		c.Undecided("R06.6", "transformCompile", "", "function not found")
		return
	}
	n := 0
	for _, name := range []string{"magicValue", "entryOffKey"} {
		fn := w.Fn(name)
		if fn == nil {
			continue
		}
		for _, cs := range w.CallsToFn(fn) {
			if cs.Fn != tc {
				continue
			}
			n++
			// the package being compiled on this path: tf.curPkg.ImportPath == K
			compiled := ""
			for _, f := range edgeFacts(cs.Instr.Block()) {
				bo, ok := f.V.(*ssa.BinOp)
				if !ok || bo.Op != token.EQL || !f.Outcome {
					continue
				}
				if k, ok := constString(bo.Y); ok && w.BackSlice(bo.X, sliceOpt{}).Fields["listedPackage.ImportPath"] {
					compiled = k
				}
			}
			// the package whose action ID the value is derived from: the constant path that
			// magicValue/entryOffKey hand to the helper which hashes
			// ListedPackages.get(<path>).GarbleActionID (the hash goes through the global
			// hasher, so a data-flow slice of the result does not see it)
			var from []string
			for _, fb := range fn.Blocks {
				for _, fi := range fb.Instrs {
					call, ok := fi.(*ssa.Call)
					if !ok {
						continue
					}
					callee := call.Call.StaticCallee()
					if callee == nil {
						continue
					}
					readsActionID := false
					for _, cb := range callee.Blocks {
						for _, ci := range cb.Instrs {
							if fa, ok := ci.(*ssa.FieldAddr); ok && fieldName(fa.X.Type(), fa.Field) == "GarbleActionID" {
								readsActionID = true
							}
						}
					}
					if !readsActionID {
						continue
					}
					for _, a := range call.Call.Args {
						if k, ok := constString(a); ok {
							from = append(from, k)
						}
					}
				}
			}
			sort.Strings(from)
			key := "transformCompile: " + name + "()"
			switch {
			case compiled == "":
				c.Undecided("R06.6", key, w.Pos(cs.Instr.Pos()), "cannot tell which package is being compiled where the value is patched in")
			case len(from) == 0:
				c.Undecided("R06.6", key, w.Pos(cs.Instr.Pos()), "cannot tell which package's GarbleActionID the value is derived from")
			default:
				c.Check(len(from) == 1 && from[0] == compiled, "R06.6", key, w.Pos(cs.Instr.Pos()), "compiled into "+compiled+", derived from the action ID of "+strings.Join(from, ", "),
					"the value is patched into "+compiled+" but derived from the GarbleActionID of "+strings.Join(from, ", ")+": when only the latter is rebuilt (for instance -gcflags="+strings.Join(from, ",")+"=...), the cached object of "+compiled+" keeps the old value while the linker gets the new one, and the program dies at start-up with 'invalid function symbol table'")
			}
		}
	}
	if n == 0 {
		c.Undecided("R06.6", "transformCompile", w.Pos(tc.Pos()), "no call of magicValue/entryOffKey found in transformCompile")
	}
}

// R06.7. With -literals the set of -ldflags=-X variables decides which string initialisers
// the compiler leaves alone, and cmd/go only re-links when ldflags change, so every such
// name must enter the build hash. The names are written in a loop over
// flagValues(ldflags, "-X"); a "continue" in that loop drops names from the hash (package
// main is addressed as main.name and is not a listed import path, a test variant has
// another path, ...), and two builds that differ only in those names share cached packages.
func checkXNamesHashed(c *Ctx) {
	w := c.W
	c.Rule("R06.7", "under -literals every -X variable name is written into the build hash: no path through the loop skips the write", 1)
	af := w.Fn("appendFlags")
	if af == nil {
		c.Undecided("R06.7", "appendFlags", "", "function not found")
		return
	}
	// the loop body is the yield function handed to the iterator returned by flagValues
	var bodies []*ssa.Function
	for name, fn := range w.funcs {
		if strings.HasPrefix(name, "appendFlags$") {
			bodies = append(bodies, fn)
		}
	}
	n := 0
	for _, body := range bodies {
		var writes []ssa.Instruction
		for _, b := range body.Blocks {
			for _, in := range b.Instrs {
				if call, ok := in.(*ssa.Call); ok && calleeName(call) == "io.WriteString" {
					if len(call.Call.Args) == 2 {
						if _, isConst := constString(call.Call.Args[1]); !isConst {
							writes = append(writes, in) // the name itself, not the " -X=" separator
						}
					}
				}
			}
		}
		if len(writes) == 0 {
			continue
		}
		n++
		bad := ""
		for _, r := range returnsOf(body) {
			dominated := false
			for _, wr := range writes {
				if dominatesInstr(wr, r) {
					dominated = true
				}
			}
			if !dominated {
				bad = "the loop over the -X flags can finish an iteration at " + w.Pos(r.Pos()) + " without writing the variable's name into the hash: builds that differ only in such names reuse each other's cached packages, whose literals were obfuscated for a different set of -X targets"
			}
		}
		c.Check(bad == "", "R06.7", "appendFlags: -X names", w.Pos(body.Pos()), "every iteration writes the name", bad)
	}
	if n == 0 {
		c.Bad("R06.7", "appendFlags: -X names", w.Pos(af.Pos()), "appendFlags no longer writes the names of the -X variables into the hash (F4)")
	}
}

// R06.8. A package's entry in garble's cache (pkgCache) holds the reflection facts of the
// whole import graph below it, including the *obfuscated names* of the dependencies' types
// (ReflectObjectNames), merged with CopyFrom. Those names follow each dependency's own
// GarbleActionID. The package's GarbleActionID only follows the dependencies' export data:
// an edit of a comment in a dependency changes the dependency's names but not the
// dependant's GarbleActionID. If the entry is keyed by that alone, the dependant is
// recompiled (its input files changed), finds its old entry and injects the stale names:
// reflect.TypeOf(v).Name() prints an obfuscated name where a cold build prints the original.
func checkPkgCacheKey(c *Ctx) {
	w := c.W
	c.Rule("R06.8", "the key of a pkgCache entry depends on the action IDs of the package's dependencies, whose facts the entry holds", 2)
	n := 0
	for _, name := range []string{"loadPkgCache", "computePkgCache"} {
		fn := w.Fn(name)
		if fn == nil {
			c.Undecided("R06.8", name, "", "function not found")
			continue
		}
		for _, cs := range w.CallsTo(cachePutBytes, cacheGetFile) {
			if cs.Fn != fn {
				continue // the look-up of a dependency's entry in the per-import closure is keyed the same way; R06.2 checks that writer and readers agree
			}
			n++
			// the id is hashed through a hash.Hash (side effects), so look inside the key function:
			// it must read the package's dependency set and the GarbleActionID of packages looked up from it
			deps, ids := false, false
			id := cs.Arg(0)
			for {
				if ld, ok := id.(*ssa.UnOp); ok {
					id = ld.X
					continue
				}
				if ct, ok := id.(*ssa.ChangeType); ok {
					id = ct.X
					continue
				}
				if cv, ok := id.(*ssa.Convert); ok {
					id = cv.X
					continue
				}
				break
			}
			if call, ok := id.(*ssa.Call); ok {
				if kf := call.Call.StaticCallee(); kf != nil && w.isModuleFn(kf) {
					bodies := []*ssa.Function{kf}
					for name, f := range w.funcs { // range-over-func bodies of the key function
						if strings.HasPrefix(name, w.FuncName(kf)+"$") {
							bodies = append(bodies, f)
						}
					}
					var blocks []*ssa.BasicBlock
					for _, f := range bodies {
						blocks = append(blocks, f.Blocks...)
					}
					for _, b := range blocks {
						for _, in := range b.Instrs {
							switch x := in.(type) {
							case *ssa.FieldAddr:
								switch fieldName(x.X.Type(), x.Field) {
								case "allDeps", "Imports", "Deps":
									deps = true
								case "GarbleActionID":
									if len(kf.Params) > 0 && x.X != ssa.Value(kf.Params[0]) {
										ids = true // of another package than the one the entry belongs to
									}
								}
							}
						}
					}
				}
			}
			what := "GetFile"
			if calleeName(cs.Instr) == cachePutBytes {
				what = "PutBytes"
			}
			c.Check(deps && ids, "R06.8", name+": "+what+" key", w.Pos(cs.Instr.Pos()), "derived from the package's and its dependencies' action IDs",
				"the entry is keyed by the package's own GarbleActionID only: after a comment-only edit of a dependency (its obfuscated names change, its export data does not) the dependant finds its old entry and the stale names of the dependency's types are injected into the binary")
		}
	}
	if n == 0 {
		c.Undecided("R06.8", "pkgCache look-ups", "", "no GetFile/PutBytes in loadPkgCache/computePkgCache")
	}
}
