package main

import (
	"encoding/json"
	"flag"
	"fmt"
	"os"
	"path/filepath"
	"strings"
)

// Mutant is a single-edit variant of /repo that breaks one rule instance
// while still compiling. The battery is the checker's own regression test: it
// never decides a property.
type Mutant struct {
	Name     string `json:"name"`
	Property string `json:"property"`
	File     string `json:"file"`
	Find     string `json:"find"`
	Replace  string `json:"replace"`
	Expect   string `json:"expect_rule"`
	Note     string `json:"note"`
	// More holds further edits of the same variant (a seeded change that needs an
	// import line as well, or touches two files).
	More []struct {
		File    string `json:"file"`
		Find    string `json:"find"`
		Replace string `json:"replace"`
	} `json:"more,omitempty"`
}

// runMutant analyses one mutant through an overlay; prints one line:
//
//	DETECTED|MISSED|STALE|BROKEN <name> ...
func runMutant(args []string) int {
	fs := flag.NewFlagSet("mutant", flag.ExitOnError)
	repo := fs.String("repo", "/repo", "")
	verif := fs.String("verif", "/verif", "")
	file := fs.String("file", "", "mutants file (default <verif>/mutants.json)")
	list := fs.Bool("list", false, "list mutant names")
	fs.Parse(args)
	if *file == "" {
		*file = filepath.Join(*verif, "mutants.json")
	}
	data, err := os.ReadFile(*file)
	if err != nil {
		fmt.Println("ERROR", err)
		return 2
	}
	var muts []Mutant
	if err := json.Unmarshal(data, &muts); err != nil {
		fmt.Println("ERROR", err)
		return 2
	}
	if *list {
		for _, m := range muts {
			fmt.Println(m.Name)
		}
		return 0
	}
	if fs.NArg() != 1 {
		fmt.Println("usage: mutant [-list] <name>")
		return 2
	}
	var m *Mutant
	for i := range muts {
		if muts[i].Name == fs.Arg(0) {
			m = &muts[i]
		}
	}
	if m == nil {
		fmt.Println("ERROR no such mutant", fs.Arg(0))
		return 2
	}
	path := filepath.Join(*repo, m.File)
	src, err := os.ReadFile(path)
	if err != nil {
		fmt.Printf("STALE %s: %v\n", m.Name, err)
		return 0
	}
	if n := strings.Count(string(src), m.Find); n != 1 {
		fmt.Printf("STALE %s: the text to replace occurs %d times in %s\n", m.Name, n, m.File)
		return 0
	}
	repoOverlay = map[string][]byte{path: []byte(strings.Replace(string(src), m.Find, m.Replace, 1))}
	for _, e := range m.More {
		file := e.File
		if file == "" {
			file = m.File
		}
		path := filepath.Join(*repo, file)
		cur, ok := repoOverlay[path]
		if !ok {
			if cur, err = os.ReadFile(path); err != nil {
				fmt.Printf("STALE %s: %v\n", m.Name, err)
				return 0
			}
		}
		if n := strings.Count(string(cur), e.Find); n != 1 {
			fmt.Printf("STALE %s: the text to replace occurs %d times in %s\n", m.Name, n, file)
			return 0
		}
		repoOverlay[path] = []byte(strings.Replace(string(cur), e.Find, e.Replace, 1))
	}
	p := registry[m.Property]
	if p == nil {
		fmt.Printf("ERROR %s: no check for %s\n", m.Name, m.Property)
		return 2
	}
	tmp, err := os.MkdirTemp("", "garbleverif-mutant")
	if err != nil {
		fmt.Println("ERROR", err)
		return 2
	}
	defer os.RemoveAll(tmp)
	if kf, err := os.ReadFile(filepath.Join(*verif, "known_findings.json")); err == nil {
		os.WriteFile(filepath.Join(tmp, "known_findings.json"), kf, 0o644)
	}
	// silence the check's own output
	stdout := os.Stdout
	devnull, _ := os.OpenFile(os.DevNull, os.O_WRONLY, 0)
	os.Stdout = devnull
	code := runCheck(p, "quick", *repo, tmp, 0)
	os.Stdout = stdout
	if code == 2 || lastCtx == nil {
		fmt.Printf("BROKEN %s: the variant does not load or type-check (exit %d)\n", m.Name, code)
		return 0
	}
	var hits, others []string
	for _, o := range lastCtx.obs {
		if o.Status == stOK || o.Known != "" {
			continue
		}
		if m.Expect == "" || o.Rule == m.Expect {
			hits = append(hits, o.Rule+" "+o.Key)
		} else {
			others = append(others, o.Rule+" "+o.Key)
		}
	}
	if len(hits) > 3 {
		hits = append(hits[:3], fmt.Sprintf("... %d more", len(hits)-3))
	}
	switch {
	case len(hits) > 0:
		fmt.Printf("DETECTED %s by %s\n", m.Name, strings.Join(hits, " | "))
	case len(others) > 0:
		fmt.Printf("DETECTED-OTHER %s expected %s, reported by %s\n", m.Name, m.Expect, strings.Join(others, " | "))
	default:
		fmt.Printf("MISSED %s (%s %s): %s\n", m.Name, m.Property, m.Expect, m.Note)
	}
	return 0
}
