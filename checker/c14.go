package main

import (
	"fmt"
	"go/token"
	"strings"

	"golang.org/x/tools/go/ssa"
)

func init() {
	register(&propCheck{
		id: "C14",
		explain: "Decides the guard clauses behind 'GOGARBLE selects exactly the obfuscated packages': " +
			"(R14.1) listedPackage.ToObfuscate is written in one place, appendListedPackages; " +
			"(R14.2) that write is reachable only on the false edges of the runtime-and-dependencies, runtime/cgo, fips140 and empty-package tests; " +
			"(R14.6) the selection and the no-match exemption both use module.MatchPrefixPatterns on GOGARBLE; " +
			"(R14.3) every successful return of the top-level listing is dominated by the 'matches nothing' test, whose failing edge returns an error; " +
			"(R14.4) every site that derives an obfuscated name for a package (all hashWithPackage and hashWithStruct call sites), the literal obfuscator and the position rewriting run only under the true edge of ToObfuscate of that same package value (same SSA value or same access path; through closures at their creation, through helpers at every call site), or are in the reviewed list of names that are hashed regardless; " +
			"(R14.5) GOGARBLE influences garble's build hash. " +
			"Does not decide the behaviour of mixed programs nor the semantics of the pattern matcher.",
		perConfig: checkC14,
	})
}

// Names that are hashed whether or not the package is selected.
// reviewedUnguarded is keyed by function, callee and the provenance of the package
// operand — not by how the hashed name is computed, so that moving the parsing of a
// name into a helper does not turn a reviewed site into a new one. n is the number of
// such sites reviewed in that function; one more is a new site and is reported.
var reviewedUnguarded = map[string]struct {
	n      int
	reason string
}{
	"(*transformer).transformLink$1: hashWithPackage(var lpkg)":              {1, "the duplicated -X flag for the obfuscated spelling; the linker ignores names that do not exist"},
	"(*reflectInspector).obfuscatedObjectName: hashWithPackage(var lpkg)":    {1, "key under which the reflect inspector remembers a name; only consulted for names that were obfuscated"},
	"(*reflectInspector).obfuscatedObjectName: hashWithStruct(param parent)": {1, "key under which the reflect inspector remembers a field name; field names are package-independent"},
}

func checkC14(c *Ctx) {
	w := c.W
	c.Rule("R14.1", "ToObfuscate is decided in one place", 1)
	c.Rule("R14.2", "the decision excludes the runtime and its dependencies, runtime/cgo, fips140 and empty packages", 5)
	c.Rule("R14.3", "a GOGARBLE value matching nothing being built is an error on every path of the top-level listing", 2)
	c.Rule("R14.4", "every name derivation, literal obfuscation and position rewriting is guarded by ToObfuscate of its own package, or reviewed", 24)
	c.Rule("R14.5", "GOGARBLE is part of garble's build hash", 1)

	alp := w.Fn("appendListedPackages")
	if alp == nil {
		c.Undecided("R14.1", "appendListedPackages", "", "anchor function not found")
		return
	}
	// R14.1 / R14.2
	var stores []*ssa.Store
	w.forEachInstr(func(fn *ssa.Function, in ssa.Instruction) {
		st, ok := in.(*ssa.Store)
		if !ok {
			return
		}
		fa, ok := st.Addr.(*ssa.FieldAddr)
		if !ok || fieldName(fa.X.Type(), fa.Field) != "ToObfuscate" || namedOf(fa.X.Type()) != "listedPackage" {
			return
		}
		name := w.FuncName(fn)
		if strings.HasSuffix(name, ".UnmarshalMsg") {
			return
		}
		if fn != alp {
			c.Bad("R14.1", "store to ToObfuscate in "+name, w.Pos(st.Pos()), "the per-package decision is changed outside appendListedPackages")
			return
		}
		stores = append(stores, st)
	})
	if len(stores) == 1 {
		c.OK("R14.1", "store to ToObfuscate in appendListedPackages", w.Pos(stores[0].Pos()), "single decision point")
	} else if len(stores) == 0 {
		c.Bad("R14.1", "store to ToObfuscate in appendListedPackages", w.Pos(alp.Pos()), "ToObfuscate is never set")
	} else {
		c.Bad("R14.1", "store to ToObfuscate in appendListedPackages", w.Pos(stores[1].Pos()), fmt.Sprintf("%d stores to ToObfuscate: every one must be behind the exclusions", len(stores)))
	}
	type excl struct{ key, what string }
	wantExcl := []excl{
		{"runtimeAndDeps", "the runtime and its dependencies (runtimeAndDeps[path])"},
		{"runtime/cgo", "runtime/cgo"},
		{"fips140", "crypto/internal/fips140"},
		{"fips140/", "crypto/internal/fips140/..."},
		{"empty", "packages without Go files (len(CompiledGoFiles) == 0)"},
	}
	for _, st := range stores {
		got := map[string]bool{}
		for _, f := range edgeFacts(st.Block()) {
			nf := normFact(f)
			if nf.Outcome {
				continue
			}
			sl := w.BackSlice(nf.V, sliceOpt{})
			switch x := nf.V.(type) {
			case *ssa.Lookup:
				if sl.Globals["main.runtimeAndDeps"] {
					got["runtimeAndDeps"] = true
				}
			case *ssa.BinOp:
				if x.Op == token.EQL {
					if s, ok := constString(x.Y); ok && s == "runtime/cgo" {
						got["runtime/cgo"] = true
					}
					if s, ok := constString(x.Y); ok && s == "crypto/internal/fips140" {
						got["fips140"] = true
					}
					if n, ok := constInt(x.Y); ok && n == 0 && sl.Fields["listedPackage.CompiledGoFiles"] {
						got["empty"] = true
					}
				}
			case *ssa.Call:
				if calleeName(x) == "strings.HasPrefix" {
					if s, ok := constString(x.Call.Args[1]); ok && s == "crypto/internal/fips140/" {
						got["fips140/"] = true
					}
				}
			}
		}
		for _, e := range wantExcl {
			c.Check(got[e.key], "R14.2", "exclusion of "+e.what, w.Pos(st.Pos()), "the store is only reachable on the false edge of this test",
				"ToObfuscate can be set for "+e.what+": garble does not support obfuscating it")
		}
	}

	// R14.6: the pattern matcher. The store is enabled by a chain of alternatives (test main,
	// command-line-arguments, plugin/unnamed, GOGARBLE match); the GOGARBLE alternative and the
	// "runtime" exemption of the no-match error must use the go command's own matcher,
	// golang.org/x/mod/module.MatchPrefixPatterns, on sharedCache.GOGARBLE: a private
	// re-implementation can disagree with it for some pattern list (and with the other site).
	c.Rule("R14.6", "both GOGARBLE tests (selection and no-match exemption) use module.MatchPrefixPatterns on sharedCache.GOGARBLE", 2)
	{
		matcher := "golang.org/x/mod/module.MatchPrefixPatterns"
		nSel, nRuntime := 0, 0
		for _, cs := range w.CallsTo(matcher) {
			if cs.Fn != alp {
				continue
			}
			if !w.BackSlice(cs.Args()[0], sliceOpt{}).Fields["sharedCacheType.GOGARBLE"] {
				continue
			}
			if k, ok := constString(cs.Args()[1]); ok && k == "runtime" {
				nRuntime++
			} else {
				nSel++
			}
		}
		// the selection call must be one of the conditions that lead to the store
		reaches := false
		for _, st := range stores {
			for _, b := range alp.Blocks {
				iff := ifOf(b)
				if iff == nil {
					continue
				}
				if call, ok := iff.Cond.(*ssa.Call); ok && calleeName(call) == matcher && (b.Succs[0] == st.Block() || reachableAvoiding(b.Succs[0], nil)[st.Block()]) {
					if _, isConst := constString(call.Call.Args[1]); !isConst {
						reaches = true
					}
				}
			}
		}
		c.Check(nSel >= 1 && reaches, "R14.6", "selection by GOGARBLE", w.Pos(alp.Pos()), "module.MatchPrefixPatterns(sharedCache.GOGARBLE, <package path>) leads to the store",
			"the per-package decision no longer calls module.MatchPrefixPatterns on GOGARBLE: a private matcher may treat some pattern lists differently (a comma list whose first pattern is deeper than the package path, say), leaving matched packages plain without any error")
		c.Check(nRuntime >= 1, "R14.6", "no-match exemption for the runtime", w.Pos(alp.Pos()), "module.MatchPrefixPatterns(sharedCache.GOGARBLE, \"runtime\")",
			"the exemption of the no-match error no longer uses module.MatchPrefixPatterns")
	}

	// R14.3
	var errRet *ssa.Return
	for _, r := range returnsOf(alp) {
		res := retResults(r)
		if len(res) != 1 || isNilConst(res[0]) {
			continue
		}
		if w.BackSlice(res[0], sliceOpt{}).Consts[`"GOGARBLE=%q does not match any packages to be built"`] {
			errRet = r
		}
	}
	if errRet == nil {
		c.Bad("R14.3", "appendListedPackages no-match error", w.Pos(alp.Pos()), "the 'GOGARBLE does not match any packages' error is gone: a pattern that selects nothing silently yields an unobfuscated build")
	} else {
		// the conjunction guarding the error: blocks chained by && that share one false target
		blk := errRet.Block()
		var conj []condFact
		var first *ssa.BasicBlock
		bad := ""
		succIdx := func(from, to *ssa.BasicBlock) int {
			for i, sc := range from.Succs {
				if sc == to {
					return i
				}
			}
			return -1
		}
		if len(blk.Preds) != 1 || ifOf(blk.Preds[0]) == nil {
			bad = "the error return is not one branch of a test"
		} else {
			p := blk.Preds[0]
			idx := succIdx(p, blk)
			elseB := p.Succs[1-idx]
			for {
				conj = append(conj, condFact{ifOf(p).Cond, idx == 0})
				first = p
				if len(p.Preds) != 1 {
					break
				}
				q := p.Preds[0]
				qi := succIdx(q, p)
				if ifOf(q) == nil || qi < 0 || q.Succs[1-qi] != elseB {
					break
				}
				p, idx = q, qi
			}
		}
		got := map[string]bool{}
		for _, cf := range conj {
			cv := cf.V
			nf := normFact(cf)
			switch x := nf.V.(type) {
			case *ssa.Parameter:
				if x.Name() == "mainBuild" && nf.Outcome {
					got["mainBuild"] = true
					continue
				}
			case *ssa.Phi:
				if x.Comment == "anyToObfuscate" && !nf.Outcome {
					got["!anyToObfuscate"] = true
					continue
				}
			case *ssa.Call:
				if calleeName(x) == "golang.org/x/mod/module.MatchPrefixPatterns" && !nf.Outcome {
					if s, ok := constString(x.Call.Args[1]); ok && s == "runtime" && w.BackSlice(x.Call.Args[0], sliceOpt{}).Fields["sharedCacheType.GOGARBLE"] {
						got["!matches(runtime)"] = true
						continue
					}
				}
			}
			bad = "the rejection has an extra condition (" + condDesc(cv) + "): some pattern lists that select nothing are accepted silently"
		}
		if bad == "" && !(got["mainBuild"] && got["!anyToObfuscate"]) {
			bad = fmt.Sprintf("the error is no longer conditioned on 'top-level build and no package selected' (found %v)", sortedKeys(got))
		}
		if bad == "" && first != nil {
			for _, r := range returnsOf(alp) {
				if res := retResults(r); len(res) == 1 && isNilConst(res[0]) && !first.Dominates(r.Block()) {
					bad = "the success return at " + w.Pos(r.Pos()) + " is not preceded by the no-match test"
				}
			}
		}
		c.Check(bad == "", "R14.3", "appendListedPackages no-match error", w.Pos(errRet.Pos()), "mainBuild && !anyToObfuscate && !matches(GOGARBLE, runtime) returns the error; every success return passes the test", bad)
	}

	// R14.3 (second part): "matches nothing *being built*". The top-level listing also lists
	// packages nobody asked for (the std packages the runtime reaches through linknames are
	// folded into the same go list call). A pattern that matches only those selects nothing
	// of the user's build, so anyToObfuscate may only be raised by a package that is told
	// apart from the folded-in ones.
	func() {
		foldsExtra := false
		// linknamedToList() is appended to the packages of the top-level (mainBuild) listing
		for _, cs := range w.CallsTo("mvdan.cc/garble.linknamedToList") {
			if cs.Fn != alp {
				continue
			}
			if v, ok := cs.Instr.(ssa.Value); ok && v.Referrers() != nil {
				for _, r := range *v.Referrers() {
					if call, ok := r.(*ssa.Call); ok && calleeName(call) == "builtin.append" {
						foldsExtra = true
					}
				}
			}
		}
		if !foldsExtra {
			c.OK("R14.3", "anyToObfuscate counts only packages of the user's build", w.Pos(alp.Pos()), "the top-level go list names only the user's packages")
			return
		}
		// the value of anyToObfuscate that the rejection tests: it must depend on something that
		// tells the user's packages from the folded-in ones
		distinguishes := false
		var at token.Pos
		for _, b := range alp.Blocks {
			for _, in := range b.Instrs {
				phi, ok := in.(*ssa.Phi)
				if !ok || phi.Comment != "anyToObfuscate" || phi.Referrers() == nil {
					continue
				}
				tested := false
				for _, r := range *phi.Referrers() {
					switch x := r.(type) {
					case *ssa.If:
						tested = true
					case *ssa.UnOp:
						tested = tested || x.Op == token.NOT
					}
				}
				if !tested {
					continue
				}
				at = phi.Pos()
				sl := w.BackSlice(phi, sliceOpt{IntoCallees: true, Depth: 3})
				if sl.Fields["listedPackage.Match"] || sl.Fields["listedPackage.DepOnly"] || sl.Fields["listedPackage.Deps"] ||
					sl.HasCall("(*mvdan.cc/garble.listedPackage).hasDep") {
					distinguishes = true
				}
				// predicates handed to library helpers (slices.ContainsFunc, ...) decide the value too
				var scan func(fn *ssa.Function)
				scan = func(fn *ssa.Function) {
					for _, fb := range fn.Blocks {
						for _, fi := range fb.Instrs {
							if call, ok := fi.(*ssa.Call); ok && calleeName(call) == "(*mvdan.cc/garble.listedPackage).hasDep" {
								distinguishes = true
							}
						}
					}
					for _, af := range fn.AnonFuncs {
						scan(af)
					}
				}
				for v := range sl.Values {
					call, ok := v.(*ssa.Call)
					if !ok {
						continue
					}
					for _, a := range call.Call.Args {
						if cf := closureFn(a); cf != nil && cf.Parent() == alp {
							scan(cf)
						}
					}
				}
			}
		}
		c.Check(distinguishes, "R14.3", "anyToObfuscate counts only packages of the user's build", w.Pos(at), "the package raising the flag is told apart from the folded-in linknamed packages",
			"the top-level go list also lists the runtime-linknamed std packages, and any listed package that matches GOGARBLE raises anyToObfuscate: a pattern that matches only such a package (crypto/rand, os/signal, arena, ...) in a program that does not use it is accepted, and the binary comes out completely unobfuscated")
	}()

	// R14.4
	seen := map[string]int{}
	unguarded := map[string]int{}
	check := func(cs CallSite, callee string, pkg ssa.Value, any bool) {
		desc := ""
		pkgDesc := ""
		for i, a := range cs.Args() {
			if i > 0 {
				desc += ", "
			}
			if i == 0 && pkg != nil {
				desc += strings.TrimPrefix(accessPath(a), "val:")
				if strings.HasPrefix(accessPath(a), "val:") {
					desc = valueDesc(a)
				}
			} else {
				desc += valueDesc(a)
			}
			if i == 0 {
				pkgDesc = desc
			}
		}
		key := fmt.Sprintf("%s: %s(%s)", w.FuncName(cs.Fn), callee, desc)
		seen[key]++
		if seen[key] > 1 {
			key = fmt.Sprintf("%s #%d", key, seen[key])
		}
		pos := w.Pos(cs.Instr.Pos())
		var ok bool
		var how string
		if any {
			ok, how = guardedByAnyToObfuscate(w, cs.Instr, 0)
		} else {
			ok, how = guardedByToObfuscate(w, cs.Instr, pkg, 0)
		}
		rkey := fmt.Sprintf("%s: %s(%s)", w.FuncName(cs.Fn), callee, pkgDesc)
		rev, reviewed := reviewedUnguarded[rkey]
		if !ok && reviewed {
			unguarded[rkey]++
		}
		switch {
		case ok:
			c.OK("R14.4", key, pos, how)
		case reviewed && unguarded[rkey] <= rev.n:
			c.OK("R14.4", key, pos, "reviewed: "+rev.reason)
		default:
			c.Bad("R14.4", key, pos, "an obfuscated name is derived for a package without first testing that package's ToObfuscate: with a GOGARBLE that does not select it, garble would rename, or look for a renamed, identifier of a package that keeps its names")
		}
	}
	for _, cs := range w.CallsToFn(w.Fn("hashWithPackage")) {
		check(cs, "hashWithPackage", cs.Args()[0], false)
	}
	for _, cs := range w.CallsToFn(w.Fn("hashWithStruct")) {
		check(cs, "hashWithStruct", nil, true)
	}
	// literal obfuscation
	for _, cs := range w.CallsTo("mvdan.cc/garble/internal/literals.Obfuscate") {
		ok, how := guardedByAnyToObfuscate(w, cs.Instr, 0)
		lit := false
		for _, f := range edgeFacts(cs.Instr.Block()) {
			if ld, ok := normFact(f).V.(*ssa.UnOp); ok && f.Outcome {
				if g, ok := ld.X.(*ssa.Global); ok && g.Name() == "flagLiterals" {
					lit = true
				}
			}
		}
		c.Check(ok && lit, "R14.4", w.FuncName(cs.Fn)+": literals.Obfuscate", w.Pos(cs.Instr.Pos()), "under flagLiterals && ToObfuscate; "+how,
			"literals are obfuscated without testing flagLiterals and the package's ToObfuscate")
	}
	// position rewriting and comment stripping in printFile
	if pf := w.Fn("printFile"); pf != nil {
		n := 0
		for _, cs := range w.CallsTo("fmt.Fprintf") {
			if cs.Fn != pf {
				continue
			}
			n++
			ok, how := guardedByToObfuscate(w, cs.Instr, pf.Params[0], 0)
			c.Check(ok, "R14.4", fmt.Sprintf("printFile: line directive #%d", n), w.Pos(cs.Instr.Pos()), how, "a //line or /*line*/ directive is written for a package that is not selected")
		}
		// the comment filter assigns file.Comments under the guard
		for _, b := range pf.Blocks {
			for _, in := range b.Instrs {
				if st, ok := in.(*ssa.Store); ok {
					if fa, ok := st.Addr.(*ssa.FieldAddr); ok && fieldName(fa.X.Type(), fa.Field) == "Comments" {
						ok, how := guardedByToObfuscate(w, st, pf.Params[0], 0)
						c.Check(ok, "R14.4", "printFile: comments replaced", w.Pos(st.Pos()), how, "comments are stripped from a package that is not selected")
					}
				}
			}
		}
	} else {
		c.Undecided("R14.4", "printFile", "", "anchor function not found")
	}

	// R14.5
	hashed, _ := hashedConfig(w, configGlobals(w))
	c.Check(hashed["shared:GOGARBLE"] != "", "R14.5", "GOGARBLE in the build hash", hashed["shared:GOGARBLE"], "written to the hasher by addGarbleToHash",
		"GOGARBLE no longer influences garble's build hash: packages compiled under one selection are reused under another")
}

// guardedByAnyToObfuscate: the site runs only under the true edge of some
// package's ToObfuscate (used where the operation has no package operand).
func guardedByAnyToObfuscate(w *World, at ssa.Instruction, depth int) (bool, string) {
	fn := at.Parent()
	for _, f := range edgeFacts(at.Block()) {
		nf := normFact(f)
		if p, ok := toObfuscateOf(nf.V); ok && nf.Outcome {
			return true, "guarded by ToObfuscate of " + strings.TrimPrefix(p, "val:") + " in " + w.FuncName(fn)
		}
	}
	if depth >= 3 {
		return false, ""
	}
	// closures: guarded where created; helpers: guarded at every call site
	if parent := fn.Parent(); parent != nil {
		all, any := true, false
		for _, b := range parent.Blocks {
			for _, in := range b.Instrs {
				isCreation := false
				if mc, ok := in.(*ssa.MakeClosure); ok && mc.Fn == ssa.Value(fn) {
					isCreation = true
				}
				for _, op := range in.Operands(nil) {
					if *op == ssa.Value(fn) {
						isCreation = true
					}
				}
				if isCreation {
					any = true
					if ok, _ := guardedByAnyToObfuscate(w, in, depth+1); !ok {
						all = false
					}
				}
			}
		}
		if any && all {
			return true, "guarded where the closure is created in " + w.FuncName(parent)
		}
		return false, ""
	}
	sites := w.CallsToFn(fn)
	if len(sites) == 0 {
		return false, ""
	}
	for _, cs := range sites {
		if ok, _ := guardedByAnyToObfuscate(w, cs.Instr, depth+1); !ok {
			return false, ""
		}
	}
	return true, fmt.Sprintf("guarded at all %d call sites of %s", len(sites), w.FuncName(fn))
}
