package main

import (
	"fmt"
	"go/token"
	"strings"

	"golang.org/x/tools/go/ssa"
)

func init() {
	register(&propCheck{
		id: "C15",
		explain: "Decides the dependency clauses behind 'identical struct types get identical field names': " +
			"(R15.1) the struct case of the bundled type hasher, which salts field names, reads only attributes that Go's type identity preserves and that survive instantiation — the number of fields, each field's name, its position and whether it is embedded; never tags, positions, packages, field types, String() or pointer values; and nothing the hasher can reach iterates a map or reads configuration; " +
			"(R15.2) every hashWithStruct call site passes a field together with the struct it belongs to: (fieldToStruct[o], o) with o an origin field, or a field enumerated from that same struct value; " +
			"(R15.3) the field-to-struct map records origin fields only (instantiated structs are skipped), maps each field to the struct being walked, and descends into named types through Origin().Underlying(). " +
			"(R02.8, shared with C02) no 'keep the name' exception of the naming decision depends on the declaring package beyond the four documented standard-library packages, matched by import path: such an exception bypasses the struct salt for one of two identical structs. " +
			"Does not decide Identical(t,t') => equal salt for every type shape, nor that cross-package conversions compile.",
		perConfig: checkC15,
	})
}

func checkC15(c *Ctx) {
	w := c.W
	ruleNoNewNameExemption(c)
	c.Rule("R15.1", "the struct identity hash reads only identity- and instantiation-invariant attributes", 3)
	hs := w.Fn("(typeutil_hasher).hash")
	if hs == nil {
		c.Undecided("R15.1", "(typeutil_hasher).hash", "", "anchor function not found")
	} else {
		// the region of the *types.Struct case
		var region map[*ssa.BasicBlock]bool
		for _, b := range hs.Blocks {
			for _, in := range b.Instrs {
				ta, ok := in.(*ssa.TypeAssert)
				if !ok || ta.AssertedType.String() != "*go/types.Struct" || !ta.CommaOk {
					continue
				}
				if iff := ifOf(b); iff != nil {
					body := b.Succs[0]
					region = map[*ssa.BasicBlock]bool{}
					for _, bb := range hs.Blocks {
						if body.Dominates(bb) {
							region[bb] = true
						}
					}
				}
			}
		}
		if region == nil {
			c.Undecided("R15.1", "struct case of the hasher", w.Pos(hs.Pos()), "cannot find 'case *types.Struct' in the hasher")
		} else {
			allowed := map[string]string{
				"(*go/types.Struct).NumFields": "number of fields", "(*go/types.Struct).Field": "field i", "(*go/types.Struct).Fields": "fields",
				"(*go/types.Var).Anonymous": "embeddedness", "(*go/types.Var).Embedded": "embeddedness",
				"(*go/types.object).Name": "field name", "(*go/types.Var).Name": "field name",
				"mvdan.cc/garble.typeutil_hashString": "string hash", "builtin.len": "length",
			}
			var used, bad []string
			for b := range region {
				for _, in := range b.Instrs {
					ci, ok := in.(ssa.CallInstruction)
					if !ok {
						continue
					}
					n := calleeName(ci)
					if _, ok := allowed[n]; ok {
						used = append(used, n)
					} else {
						bad = append(bad, n+" at "+w.Pos(in.Pos()))
					}
				}
			}
			used = dedup(used)
			c.Check(len(bad) == 0, "R15.1", "struct case reads only names, positions and embeddedness", w.Pos(hs.Pos()), "calls: "+strings.Join(used, ", "),
				"the struct case of the identity hash also depends on "+strings.Join(dedup(bad), "; ")+": two identical struct types (or a generic struct and its instantiation) can get different field-name salts, so conversions and assignments between them stop compiling")
			need := 0
			for _, u := range used {
				if strings.HasSuffix(u, ".Name") || strings.HasSuffix(u, ".Anonymous") || strings.HasSuffix(u, ".Embedded") {
					need++
				}
			}
			c.Check(need >= 2, "R15.1", "struct case distinguishes field names and embeddedness", w.Pos(hs.Pos()), "reads Name and Anonymous/Embedded",
				"the struct case no longer folds field names and embeddedness into the salt: unrelated structs share field-name salts")
		}
		// whole hasher: no unordered iteration, no configuration, no String()/pointer formatting
		g := w.Graph()
		reach, _ := g.Reach(w.Fn("typeutil_hash"))
		var bad []string
		for _, s := range detSites(w, reach) {
			if s.Proved == "" {
				bad = append(bad, s.key(w))
			}
		}
		for _, r := range configReads(w, reach, configGlobals(w)) {
			bad = append(bad, "reads "+r.Item+" in "+w.FuncName(r.Fn))
		}
		c.Check(len(bad) == 0, "R15.1", "the identity hash is order- and configuration-free", w.Pos(hs.Pos()), fmt.Sprintf("%d functions reachable from typeutil_hash", len(reach)),
			"the identity hash depends on "+strings.Join(dedup(bad), "; "))
	}

	// R15.2 ---------------------------------------------------------------
	c.Rule("R15.2", "every hashWithStruct site passes a field with the struct it belongs to", 4)
	hws := w.Fn("hashWithStruct")
	seen := map[string]int{}
	var check func(cs CallSite, strct, field ssa.Value, depth int) (bool, string)
	check = func(cs CallSite, strct, field ssa.Value, depth int) (bool, string) {
		// (A) strct = m[field] with field an origin field
		if lk, ok := strct.(*ssa.Lookup); ok && lk.Index == field {
			fs := w.BackSlice(field, sliceOpt{})
			if fs.HasCall("(*go/types.Var).Origin") && w.BackSlice(lk.X, sliceOpt{}).Fields["transformer.fieldToStruct"] {
				return true, "(fieldToStruct[o], o) with o = x.Origin()"
			}
			return false, "the struct is looked up with a field that is not an origin field, or in another map"
		}
		// (B) field enumerated from strct
		fs := w.BackSlice(field, sliceOpt{})
		if fs.HasCall("(*go/types.Struct).Field") || fs.HasCall("(*go/types.Struct).Fields") {
			if fs.Values[strct] {
				return true, "field enumerated from the same struct value"
			}
			// through a captured variable: both slices reach the same defining value of the struct
			ss := w.BackSlice(strct, sliceOpt{})
			for v := range ss.Values {
				switch v.(type) {
				case *ssa.Extract, *ssa.TypeAssert, *ssa.Call, *ssa.Parameter:
					if strings.HasSuffix(v.Type().String(), "go/types.Struct") && fs.Values[v] {
						return true, "field enumerated from the same struct value (through a captured variable)"
					}
				}
			}
		}
		// (C) parameters: decide at the callers
		ps, ok1 := strct.(*ssa.Parameter)
		pf, ok2 := unwrapTypeAssert(field).(*ssa.Parameter)
		if ok1 && ok2 && depth < 2 {
			fn := ps.Parent()
			is, ifl := paramIndex(fn, ps), paramIndex(fn, pf)
			sites := w.CallsToFn(fn)
			if len(sites) == 0 || is < 0 || ifl < 0 {
				return false, "cannot resolve callers"
			}
			why := ""
			for _, s2 := range sites {
				a := s2.Instr.Common().Args
				if isNilConst(a[is]) {
					continue // callers that pass no struct do not reach hashWithStruct (guarded by parent != nil)
				}
				ok, w2 := check(s2, a[is], a[ifl], depth+1)
				if !ok {
					return false, "at " + w.Pos(s2.Instr.Pos()) + ": " + w2
				}
				why = w2
			}
			return true, "at every caller: " + why
		}
		return false, "the field and the struct are unrelated values"
	}
	for _, cs := range w.CallsToFn(hws) {
		k := w.FuncName(cs.Fn) + " hashWithStruct"
		seen[k]++
		key := fmt.Sprintf("%s #%d", k, seen[k])
		ok, why := check(cs, cs.Args()[0], cs.Args()[1], 0)
		c.Check(ok, "R15.2", key, w.Pos(cs.Instr.Pos()), why, "a field name is salted with a struct it may not belong to ("+why+"): the same field gets different names at its declaration and at a use")
	}

	// R15.3 ---------------------------------------------------------------
	c.Rule("R15.3", "fieldToStruct records origin fields only and descends through Origin().Underlying()", 3)
	rf := w.Fn("recordFieldToStruct")
	if rf == nil {
		c.Undecided("R15.3", "recordFieldToStruct", "", "anchor function not found")
		return
	}
	fns := append([]*ssa.Function{rf}, rf.AnonFuncs...)
	originCheck, mapsWalked := false, false
	for _, fn := range fns {
		for _, b := range fn.Blocks {
			for _, in := range b.Instrs {
				switch x := in.(type) {
				case *ssa.BinOp:
					if x.Op == token.NEQ || x.Op == token.EQL {
						for _, pair := range [][2]ssa.Value{{x.X, x.Y}, {x.Y, x.X}} {
							if call, ok := pair[1].(*ssa.Call); ok && calleeName(call) == "(*go/types.Var).Origin" && call.Call.Args[0] == pair[0] {
								// the "differs" outcome must end the walk of this struct
								if iff := ifOf(b); iff != nil && iff.Cond == ssa.Value(x) {
									differs := b.Succs[0]
									if x.Op == token.EQL {
										differs = b.Succs[1]
									}
									if _, ok := differs.Instrs[len(differs.Instrs)-1].(*ssa.Return); ok {
										originCheck = true
									}
								}
							}
						}
					}
				case *ssa.MapUpdate:
					ms := w.BackSlice(x.Map, sliceOpt{})
					vs := w.BackSlice(x.Value, sliceOpt{})
					isFTS := false
					for p := range ms.Params {
						if p.Name() == "fieldToStruct" {
							isFTS = true
						}
					}
					if isFTS {
						for v := range vs.Values {
							if ta, ok := v.(*ssa.TypeAssert); ok && ta.AssertedType.String() == "*go/types.Struct" {
								mapsWalked = true
							}
						}
					}
				}
			}
		}
	}
	c.Check(originCheck, "R15.3", "instantiated structs are skipped", w.Pos(rf.Pos()), "a field that differs from its Origin() stops the recording of that struct",
		"recordFieldToStruct records fields of instantiated structs: a generic struct and its instances get different field-name salts")
	c.Check(mapsWalked, "R15.3", "fields map to the struct being walked", w.Pos(rf.Pos()), "fieldToStruct[field] = the *types.Struct under the type switch", "fields are no longer mapped to the struct that declares them")
	okNamed := false
	for _, cs := range w.CallsToFn(rf) {
		if cs.Fn != rf {
			continue
		}
		sl := w.BackSlice(cs.Args()[0], sliceOpt{})
		if sl.HasCall("(*go/types.Named).Origin") && sl.HasCall("(*go/types.Named).Underlying") {
			okNamed = true
		}
	}
	c.Check(okNamed, "R15.3", "named types descend through Origin().Underlying()", w.Pos(rf.Pos()), "the uninstantiated declaration is walked", "named types are walked through their instantiated underlying type: generic struct fields are recorded per instance")
}

func unwrapTypeAssert(v ssa.Value) ssa.Value {
	for {
		switch x := v.(type) {
		case *ssa.TypeAssert:
			v = x.X
		case *ssa.Extract:
			if ta, ok := x.Tuple.(*ssa.TypeAssert); ok {
				v = ta.X
			} else {
				return v
			}
		case *ssa.MakeInterface:
			v = x.X
		case *ssa.ChangeInterface:
			v = x.X
		default:
			return v
		}
	}
}

func paramIndex(fn *ssa.Function, p *ssa.Parameter) int {
	for i, q := range fn.Params {
		if q == p {
			return i
		}
	}
	return -1
}
