package main

import (
	"encoding/json"
	"fmt"
	"os"
	"path/filepath"
	"sort"
	"strings"
	"time"
)

// Status of one rule instance.
const (
	stOK        = "ok"
	stViolation = "violation"
	stUndecided = "undecided"
)

// Obligation is one rule instance: a rule applied to one construct of /repo.
// Key identifies the construct (qualified function, resolved callee, operand
// description) and never contains a line number.
type Obligation struct {
	Rule   string `json:"rule"`
	Key    string `json:"key"`
	Pos    string `json:"pos,omitempty"`
	Status string `json:"status"`
	Detail string `json:"detail,omitempty"`
	Path   string `json:"path,omitempty"` // witness (call chain / CFG path) for path rules
	Known  string `json:"known_finding,omitempty"`
	Config string `json:"config,omitempty"`
}

// RuleInfo describes a rule for the evidence file.
type RuleInfo struct {
	ID    string `json:"id"`
	Title string `json:"title"`
	Floor int    `json:"floor"` // hand-confirmed minimum instance count
	Count int    `json:"instances"`
	OK    int    `json:"ok"`
	Bad   int    `json:"violations"`
	Known int    `json:"known_findings"`
	Undec int    `json:"undecided"`
}

// Ctx is handed to every property check.
type Ctx struct {
	Prop    string
	Tier    string
	Config  string // e.g. linux/amd64 or linux/amd64+garble_testing
	W       *World
	obs     []Obligation
	rules   map[string]*RuleInfo
	order   []string
	Counts  map[string]int // what was analysed: functions, call sites, blocks, ...
	ruleCfg map[string]map[string]bool
	Notes   []string
	Assume  []string
	Explain string
	exhaust bool
}

func newCtx(prop, tier string) *Ctx {
	return &Ctx{Prop: prop, Tier: tier, rules: map[string]*RuleInfo{}, Counts: map[string]int{}, ruleCfg: map[string]map[string]bool{}}
}

// Rule declares a rule with its hand-confirmed floor.
func (c *Ctx) Rule(id, title string, floor int) {
	if c.ruleCfg[id] == nil {
		c.ruleCfg[id] = map[string]bool{}
	}
	c.ruleCfg[id][c.Config] = true
	if r, ok := c.rules[id]; ok {
		// same rule in a second configuration: keep the floor
		r.Title = title
		if floor > r.Floor {
			r.Floor = floor
		}
		return
	}
	c.rules[id] = &RuleInfo{ID: id, Title: title, Floor: floor}
	c.order = append(c.order, id)
}

func (c *Ctx) add(o Obligation) {
	if _, ok := c.rules[o.Rule]; !ok {
		panic("obligation for undeclared rule " + o.Rule)
	}
	o.Config = c.Config
	if c.Config != "" && c.Config != defaultConfig {
		o.Key = o.Key + " @" + c.Config
	}
	c.obs = append(c.obs, o)
}

func (c *Ctx) OK(rule, key, pos, detail string) {
	c.add(Obligation{Rule: rule, Key: key, Pos: pos, Status: stOK, Detail: detail})
}

func (c *Ctx) Bad(rule, key, pos, detail string) {
	c.add(Obligation{Rule: rule, Key: key, Pos: pos, Status: stViolation, Detail: detail})
}

func (c *Ctx) BadPath(rule, key, pos, detail, path string) {
	c.add(Obligation{Rule: rule, Key: key, Pos: pos, Status: stViolation, Detail: detail, Path: path})
}

func (c *Ctx) Undecided(rule, key, pos, detail string) {
	c.add(Obligation{Rule: rule, Key: key, Pos: pos, Status: stUndecided, Detail: detail})
}

// Check records OK or a violation depending on cond.
func (c *Ctx) Check(cond bool, rule, key, pos, okDetail, badDetail string) bool {
	if cond {
		c.OK(rule, key, pos, okDetail)
	} else {
		c.Bad(rule, key, pos, badDetail)
	}
	return cond
}

// baseKey strips the " @config" suffix added for non-default configurations.
func baseKey(k string) string {
	if i := strings.LastIndex(k, " @"); i >= 0 {
		return k[:i]
	}
	return k
}

func (c *Ctx) Count(what string, n int) { c.Counts[what] += n }

// ---------------------------------------------------------------------------
// known findings

type KnownFinding struct {
	Property string `json:"property"`
	Rule     string `json:"rule"`
	Key      string `json:"key"`
	What     string `json:"what"`
	Status   string `json:"status"` // "known" or "fixed"
	Commit   string `json:"commit,omitempty"`
	ID       string `json:"id,omitempty"` // F1..F10 in DESIGN.md
}

type knownFile struct {
	Comment  string         `json:"comment"`
	Findings []KnownFinding `json:"findings"`
}

func loadKnown(verifDir string) ([]KnownFinding, error) {
	data, err := os.ReadFile(filepath.Join(verifDir, "known_findings.json"))
	if err != nil {
		if os.IsNotExist(err) {
			return nil, nil
		}
		return nil, err
	}
	var kf knownFile
	if err := json.Unmarshal(data, &kf); err != nil {
		return nil, err
	}
	return kf.Findings, nil
}

// ---------------------------------------------------------------------------
// finishing a run: floors, known findings, evidence, exit status

type evidence struct {
	PropertyID  string         `json:"property_id"`
	Tier        string         `json:"tier"`
	Seed        int            `json:"seed"`
	Level       string         `json:"level"`
	Coverage    map[string]any `json:"coverage"`
	Assumptions []string       `json:"assumptions"`
	WallS       float64        `json:"wall_s"`
	Violations  int            `json:"violations"`
}

func (c *Ctx) finish(verifDir string, start time.Time, seed int, configs []string) int {
	known, err := loadKnown(verifDir)
	if err != nil {
		fmt.Printf("ERROR cannot read known_findings.json: %v\n", err)
		return 2
	}
	// floors
	perRule := map[string]int{}
	for _, o := range c.obs {
		perRule[o.Rule+"|"+o.Config]++
	}
	for _, id := range c.order {
		r := c.rules[id]
		var cfgs []string
		for cfg := range c.ruleCfg[id] {
			cfgs = append(cfgs, cfg)
		}
		sort.Strings(cfgs)
		for _, cfg := range cfgs {
			if got := perRule[id+"|"+cfg]; got < r.Floor {
				key := "floor"
				if cfg != "" && cfg != defaultConfig {
					key += " @" + cfg
				}
				c.obs = append(c.obs, Obligation{Rule: id, Key: key, Status: stViolation, Config: cfg,
					Detail: fmt.Sprintf("rule %s (%s) matched %d instance(s), below the hand-confirmed floor of %d: an anchor disappeared or the rule no longer recognises the code", id, r.Title, got, r.Floor)})
			}
		}
	}
	// classify
	nViol, nKnown, nUndec, nOK := 0, 0, 0, 0
	distinct := map[string]bool{}
	var lines []string
	violDir := filepath.Join(verifDir, "evidence", "violations")
	for i := range c.obs {
		o := &c.obs[i]
		r := c.rules[o.Rule]
		r.Count++
		distinct[o.Rule+"|"+o.Key] = true
		switch o.Status {
		case stOK:
			nOK++
			r.OK++
		case stUndecided:
			nUndec++
			r.Undec++
		case stViolation:
			matched := false
			for _, k := range known {
				if k.Status == "known" && k.Property == c.Prop && k.Rule == o.Rule && k.Key == baseKey(o.Key) {
					matched = true
					o.Known = k.What
					lines = append(lines, fmt.Sprintf("KNOWN-FINDING: property=%s %s %s: %s", c.Prop, o.Rule, o.Key, k.What))
					break
				}
			}
			if matched {
				nKnown++
				r.Known++
			} else {
				nViol++
				r.Bad++
			}
		}
	}
	// print the rule summary
	fmt.Printf("== %s tier=%s configs=%s\n", c.Prop, c.Tier, strings.Join(configs, ","))
	var ckeys []string
	for k := range c.Counts {
		ckeys = append(ckeys, k)
	}
	sort.Strings(ckeys)
	for _, k := range ckeys {
		fmt.Printf("   analysed %-28s %d\n", k, c.Counts[k])
	}
	for _, id := range c.order {
		r := c.rules[id]
		fmt.Printf("   rule %-7s %-70s instances=%d (floor %d) ok=%d violations=%d known=%d undecided=%d\n", r.ID, r.Title, r.Count, r.Floor, r.OK, r.Bad, r.Known, r.Undec)
	}
	for _, n := range c.Notes {
		fmt.Printf("   note: %s\n", n)
	}
	for _, l := range lines {
		fmt.Println(l)
	}
	// violations and undecided: replay files
	os.MkdirAll(violDir, 0o755)
	old, _ := filepath.Glob(filepath.Join(violDir, c.Prop+"-*.json"))
	for _, f := range old {
		os.Remove(f)
	}
	n := 0
	for _, o := range c.obs {
		if o.Status == stOK || o.Known != "" {
			continue
		}
		n++
		path := filepath.Join(violDir, fmt.Sprintf("%s-%d.json", c.Prop, n))
		data, _ := json.MarshalIndent(map[string]any{"property": c.Prop, "tier": c.Tier, "obligation": o,
			"rule_title": c.rules[o.Rule].Title}, "", " ")
		os.WriteFile(path, data, 0o644)
		kind := "violated"
		if o.Status == stUndecided {
			kind = "UNDECIDED (counts as failed)"
		}
		fmt.Printf("   %s %s %s [%s] %s\n", kind, o.Rule, o.Key, o.Pos, o.Detail)
		if o.Path != "" {
			fmt.Printf("      witness: %s\n", o.Path)
		}
		fmt.Printf("VIOLATION property=%s replay=%s\n", c.Prop, path)
	}

	// evidence
	var rules []RuleInfo
	for _, id := range c.order {
		rules = append(rules, *c.rules[id])
	}
	var samples []Obligation
	seenRule := map[string]int{}
	for _, o := range c.obs {
		if seenRule[o.Rule] < 2 || o.Status != stOK {
			seenRule[o.Rule]++
			samples = append(samples, o)
		}
		if len(samples) >= 40 {
			break
		}
	}
	cov := map[string]any{
		"explanation":         c.Explain,
		"obligations":         len(c.obs),
		"discharged":          nOK,
		"evaluations":         len(c.obs),
		"distinct_nontrivial": len(distinct),
		"rule":                "one evaluation = one rule applied to one construct of /repo's current source (call site, function, table entry, CFG path set); distinct = distinct (rule, construct key) pairs; a construct is non-trivial because every rule instance is tied to a resolved program element and floors forbid vacuous passes",
		"samples":             samples,
		"rules":               rules,
		"analysed":            c.Counts,
		"configurations":      configs,
		"known_findings":      nKnown,
		"undecided":           nUndec,
		"exhaustive":          c.exhaust,
		"notes":               c.Notes,
	}
	ev := evidence{PropertyID: c.Prop, Tier: c.Tier, Seed: seed, Level: "other", Coverage: cov,
		Assumptions: append([]string{
			"go/types, go/ssa and the go/packages loader are trusted as used by the checker",
			"static analysis of /repo's current working tree only: nothing is built or run; the check decides the structural clauses named in 'rules', not the run-time behaviour the property describes",
		}, c.Assume...),
		WallS: time.Since(start).Seconds(), Violations: nViol + nUndec}
	os.MkdirAll(filepath.Join(verifDir, "evidence"), 0o755)
	data, _ := json.MarshalIndent(ev, "", " ")
	if err := os.WriteFile(filepath.Join(verifDir, "evidence", c.Prop+".json"), data, 0o644); err != nil {
		fmt.Printf("ERROR writing evidence: %v\n", err)
		return 2
	}
	if nViol+nUndec > 0 {
		fmt.Printf("FAIL %s: %d violation(s), %d undecided, %d known finding(s), %d ok\n", c.Prop, nViol, nUndec, nKnown, nOK)
		return 1
	}
	fmt.Printf("OK %s: %d rule instances discharged, %d known finding(s)\n", c.Prop, nOK, nKnown)
	return 0
}
