package main

import (
	"fmt"
	"go/types"
	"os"
	"path/filepath"
	"regexp"
	"strings"

	"golang.org/x/tools/go/ssa"
)

func init() {
	register(&propCheck{
		id: "C08",
		explain: "Decides the coverage and plumbing clauses behind 'types that reach reflection keep their names': " +
			"(R08.1) component coverage of the recursive type walker that records reflected names: every component of a type that reflect.Type can navigate to (Elem of pointer/slice/array/chan/map, map Key, struct fields, function parameters and results, the underlying type of a named type, the target of an alias) flows into the recursive call; " +
			"(R08.2) pkgCache.CopyFrom merges every field of pkgCache and the seed table names reflect.TypeOf/ValueOf parameter 0; " +
			"(R08.3) coverage floors for the SSA value kinds handled by recordArgReflected, relatedParam, checkFunction and checkMethodSignature (a removed case is a violation, an added one is not); " +
			"(R08.4) the fix-point is free of pruning state: which calls checkFunction examines depends only on the accumulated result sets, never on 'already checked' maps, and the name pairs are emitted in sorted order; " +
			"(R08.5) the injection chain agrees: the text abiNamePatch replaces occurs exactly once in the pinned toolchain's internal/abi/type.go, the two linknamed functions have the same names on both sides, and the name table is looked up under the right spelling of its variable. " +
			"(R08.6) the method-signature heuristic marks unnamed struct types only; (R08.7) the reflected-type walker stops early only on visited, universe and already-recorded types; " +
			"(R07.2, shared with C07) the facts of a dependency whose cache entry is missing are recomputed whenever the dependency can reach reflect at all (transitively), merged and stored. " +
			"Does not decide the soundness of the taint heuristic over all data flows, nor the injected replacer's algorithm.",
		perConfig: checkC08,
		once:      checkC08goroot,
	})
}

// recursive-call argument accessors: the go/types methods applied to the
// switched value whose results flow into a self-call.
func walkerComponents(w *World, fn *ssa.Function) map[string]bool {
	got := map[string]bool{}
	for _, cs := range w.CallsToFn(fn) {
		if cs.Fn != fn {
			continue
		}
		// the type argument is the first non-receiver argument of types.Type
		for _, a := range cs.Args() {
			if !types.Identical(a.Type(), fn.Params[len(fn.Params)-2+boolToInt(fn.Signature.Recv() == nil)].Type()) {
				continue
			}
			sl := w.BackSlice(a, sliceOpt{})
			for n := range sl.Calls {
				got[n] = true
			}
			for v := range sl.Values {
				if ta, ok := v.(*ssa.TypeAssert); ok {
					got["assert:"+ta.AssertedType.String()] = true
				}
			}
		}
	}
	return got
}

func boolToInt(b bool) int {
	if b {
		return 1
	}
	return 0
}

func checkC08(c *Ctx) {
	w := c.W
	ruleDepCacheRecompute(c)
	c.Rule("R08.1", "the reflected-type walker visits every component reflect.Type can navigate to", 7)
	walker := w.Fn("(*reflectInspector).recursivelyRecordUsedForReflectImpl")
	if walker == nil {
		c.Undecided("R08.1", "recursivelyRecordUsedForReflectImpl", "", "anchor function not found")
	} else {
		// collect accessor calls flowing into the recursive call's type argument
		got := map[string]bool{}
		for _, cs := range w.CallsToFn(walker) {
			if cs.Fn != walker && cs.Fn.Parent() != walker {
				continue // self-calls, including those in range-over-func bodies of the walker
			}
			sl := w.BackSlice(cs.Args()[1], sliceOpt{})
			for n := range sl.Calls {
				got[n] = true
			}
		}
		elemAll := got["(interface{Elem() go/types.Type}).Elem"] || got["(interface).Elem"]
		for n := range got {
			if strings.HasSuffix(n, ").Elem") && strings.Contains(n, "interface") {
				elemAll = true
			}
		}
		type comp struct {
			key, what, reflectAPI string
			ok                    bool
		}
		comps := []comp{
			{"Pointer.Elem", "element type of a pointer", "Type.Elem", elemAll || got["(*go/types.Pointer).Elem"]},
			{"Slice.Elem", "element type of a slice", "Type.Elem", elemAll || got["(*go/types.Slice).Elem"]},
			{"Array.Elem", "element type of an array", "Type.Elem", elemAll || got["(*go/types.Array).Elem"]},
			{"Chan.Elem", "element type of a channel", "Type.Elem", elemAll || got["(*go/types.Chan).Elem"]},
			{"Map.Elem", "value type of a map", "Type.Elem", elemAll || got["(*go/types.Map).Elem"]},
			{"Map.Key", "key type of a map", "Type.Key", got["(*go/types.Map).Key"]},
			{"Struct.Field", "field types of a struct", "Type.Field(i).Type", got["(*go/types.Struct).Field"] || got["(*go/types.Struct).Fields"]},
			{"Signature.Params", "parameter types of a func", "Type.In(i)", got["(*go/types.Signature).Params"]},
			{"Signature.Results", "result types of a func", "Type.Out(i)", got["(*go/types.Signature).Results"]},
			{"Named.Underlying", "underlying type of a named type", "Type.Field/Elem/... on the named type", got["(*go/types.Named).Underlying"]},
			{"Alias.Rhs", "target of an alias", "(transparent)", got["(*go/types.Alias).Rhs"] || got["go/types.Unalias"]},
		}
		for _, cp := range comps {
			c.Check(cp.ok, "R08.1", "component "+cp.key, w.Pos(walker.Pos()), "visited: flows into the recursive call",
				fmt.Sprintf("the walker never descends into the %s: named types only reachable through reflect's %s keep their obfuscated names at run time", cp.what, cp.reflectAPI))
		}
		c.Notes = append(c.Notes, "type components visited by the walker: "+strings.Join(sortedKeys(got), ", "))
	}

	// R08.2 ---------------------------------------------------------------
	c.Rule("R08.2", "pkgCache.CopyFrom merges every field; the seed table names reflect.TypeOf and reflect.ValueOf", 4)
	cf := w.Fn("(*pkgCache).CopyFrom")
	pc, _ := w.Object("", "pkgCache").(*types.TypeName)
	if cf == nil || pc == nil {
		c.Undecided("R08.2", "pkgCache.CopyFrom", "", "anchor not found")
	} else {
		st := pc.Type().Underlying().(*types.Struct)
		read, written := map[string]bool{}, map[string]bool{}
		for _, b := range cf.Blocks {
			for _, in := range b.Instrs {
				switch x := in.(type) {
				case *ssa.Field:
					read[fieldName(x.X.Type(), x.Field)] = true
				case *ssa.FieldAddr:
					if root := baseAlloc(x.X); root == ssa.Value(cf.Params[0]) {
						written[fieldName(x.X.Type(), x.Field)] = true
					} else {
						read[fieldName(x.X.Type(), x.Field)] = true
					}
				}
			}
		}
		for i := 0; i < st.NumFields(); i++ {
			f := st.Field(i).Name()
			c.Check(read[f] && written[f], "R08.2", "CopyFrom merges pkgCache."+f, w.Pos(cf.Pos()), "source field read, destination field written",
				"pkgCache."+f+" is not merged by CopyFrom: facts of a dependency stored in this field are lost for its dependants")
		}
	}
	if cpc := w.Fn("computePkgCache"); cpc != nil {
		for _, api := range []string{"reflect.TypeOf", "reflect.ValueOf"} {
			found := false
			for _, b := range cpc.Blocks {
				for _, in := range b.Instrs {
					if mu, ok := in.(*ssa.MapUpdate); ok {
						if s, ok := constString(mu.Key); ok && s == api {
							found = true
						}
					}
				}
			}
			c.Check(found, "R08.2", "seed table entry "+api, w.Pos(cpc.Pos()), "parameter 0 is reflected", api+" is no longer in the initial reflect API table: no reflection use would ever be detected")
		}
	}

	// R08.3 ---------------------------------------------------------------
	c.Rule("R08.3", "coverage floors of the reflection analysis' SSA switches", 25)
	floors := map[string][]string{
		"(*reflectInspector).recordArgReflected":   {"*ssa.IndexAddr", "*ssa.Slice", "*ssa.MakeInterface", "*ssa.UnOp", "*ssa.FieldAddr", "*ssa.Alloc", "*ssa.ChangeType", "*ssa.MakeSlice", "*ssa.MakeMap", "*ssa.MakeChan", "*ssa.Const", "*ssa.Global", "*ssa.Parameter"},
		"relatedParam":                             {"*ssa.Parameter", "*ssa.UnOp", "*ssa.FieldAddr", "*ssa.Store"},
		"(*reflectInspector).checkFunction":        {"*ssa.Store", "*ssa.ChangeType", "*ssa.Call"},
		"(*reflectInspector).checkMethodSignature": {"*types.Struct", "*types.Array", "*types.Slice"},
		"(*reflectInspector).ignoreReflectedTypes": {"*ssa.Type", "*ssa.Function"},
	}
	for _, fname := range sortedKeys(floors) {
		fn := w.Fn(fname)
		if fn == nil {
			c.Undecided("R08.3", fname, "", "function not found")
			continue
		}
		have := map[string]bool{}
		for _, f := range append([]*ssa.Function{fn}, fn.AnonFuncs...) {
			for _, b := range f.Blocks {
				for _, in := range b.Instrs {
					if ta, ok := in.(*ssa.TypeAssert); ok {
						s := ta.AssertedType.String()
						s = strings.Replace(s, "golang.org/x/tools/go/ssa.", "ssa.", 1)
						s = strings.Replace(s, "go/types.", "types.", 1)
						have[s] = true
					}
				}
			}
		}
		for _, want := range floors[fname] {
			c.Check(have[want], "R08.3", fname+" handles "+want, w.Pos(fn.Pos()), "case present",
				"the case for "+want+" is gone: values of that kind no longer propagate 'used for reflection'")
		}
	}

	// R08.4 ---------------------------------------------------------------
	c.Rule("R08.4", "the reflection fix-point has no pruning state and the name pairs are emitted sorted", 3)
	if chk := w.Fn("(*reflectInspector).checkFunction"); chk != nil {
		var pruning []string
		for _, b := range chk.Blocks {
			for _, in := range b.Instrs {
				lk, ok := in.(*ssa.Lookup)
				if !ok {
					continue
				}
				// a lookup in a map field of the inspector other than its result sets, used as a branch condition
				sl := w.BackSlice(lk.X, sliceOpt{})
				isResult := sl.Fields["pkgCache.ReflectAPIs"] || sl.Fields["pkgCache.ReflectObjectNames"]
				isInspector := false
				for f := range sl.Fields {
					if strings.HasPrefix(f, "reflectInspector.") && f != "reflectInspector.result" {
						isInspector = true
						pruning = append(pruning, strings.TrimPrefix(f, "reflectInspector.")+" at "+w.Pos(lk.Pos()))
					}
				}
				_ = isResult
				_ = isInspector
			}
		}
		c.Check(len(pruning) == 0, "R08.4", "checkFunction consults no pruning state", w.Pos(chk.Pos()), "which calls are examined depends only on the accumulated result sets",
			"checkFunction skips work based on "+strings.Join(dedup(pruning), ", ")+": combined with map-ordered visiting, whether a type that reaches reflection through two helper functions is recorded depends on iteration order")
	} else {
		c.Undecided("R08.4", "checkFunction", "", "function not found")
	}
	// termination measure: the repeat condition of recordReflection must notice growth of parameter sets
	if rr := w.Fn("(*reflectInspector).recordReflection"); rr != nil {
		measuresInner := false
		g := w.Graph()
		reach, _ := g.Reach(rr)
		_ = reach
		for _, b := range rr.Blocks {
			for _, in := range b.Instrs {
				if call, ok := in.(*ssa.Call); ok {
					if callee := call.Call.StaticCallee(); callee != nil && w.isModuleFn(callee) && callee != rr {
						// a size helper that ranges over ReflectAPIs and adds len of the inner sets
						for _, cb := range callee.Blocks {
							for _, ci := range cb.Instrs {
								r, ok := ci.(*ssa.Range)
								if !ok || !isMapType(r.X.Type()) || !w.BackSlice(r.X, sliceOpt{}).Fields["pkgCache.ReflectAPIs"] {
									continue
								}
								for _, ref := range *r.Referrers() {
									nx, ok := ref.(*ssa.Next)
									if !ok {
										continue
									}
									for bb := range loopBlocks(nx.Block()) {
										for _, ii := range bb.Instrs {
											if cl, ok := ii.(*ssa.Call); ok && calleeName(cl) == "builtin.len" && w.BackSlice(cl.Call.Args[0], sliceOpt{}).Values[nx] {
												measuresInner = true
											}
										}
									}
								}
							}
						}
					}
				}
				if r, ok := in.(*ssa.Range); ok && isMapType(r.X.Type()) && w.BackSlice(r.X, sliceOpt{}).Fields["pkgCache.ReflectAPIs"] {
					// inline: sums inner sizes (not the maps.Keys copy loop)
					for _, ref := range *r.Referrers() {
						if nx, ok := ref.(*ssa.Next); ok {
							for bb := range loopBlocks(nx.Block()) {
								for _, ii := range bb.Instrs {
									if cl, ok := ii.(*ssa.Call); ok && calleeName(cl) == "builtin.len" {
										measuresInner = true
									}
								}
							}
						}
					}
				}
			}
		}
		c.Check(measuresInner, "R08.4", "recordReflection repeats while parameter sets grow", w.Pos(rr.Pos()), "the progress measure counts the reflected parameters of every API",
			"recordReflection decides whether to run another pass from len(ReflectAPIs)+len(ReflectObjectNames) only: a function whose set of reflected parameters grows (without a new function or name appearing) does not trigger the pass its callers need")
	}
	sortedPairs := false
	for _, s := range detSites(w, map[*ssa.Function]bool{w.Fn("reflectMainPostPatch"): true}) {
		if s.Kind == "D2" && s.Proved != "" {
			sortedPairs = true
		}
		if s.Kind == "D2" && s.Proved == "" {
			sortedPairs = false
			break
		}
	}
	c.Check(sortedPairs, "R08.4", "name pairs emitted sorted", "", "reflectMainPostPatch iterates slices.Sorted(maps.Keys(...))", "the run-time name table is emitted in map order")

	// R08.5 (repo side) -----------------------------------------------------
	c.Rule("R08.5", "injection chain: anchor text, linkname names and table variable agree", 4)
	anp := w.Fn("abiNamePatch")
	if anp == nil {
		c.Undecided("R08.5", "abiNamePatch", "", "function not found")
		return
	}
	find, replace, appended := "", "", ""
	for _, cs := range w.CallsTo("strings.Replace") {
		if cs.Fn == anp {
			find, _ = constString(cs.Args()[1])
			replace, _ = constString(cs.Args()[2])
		}
	}
	for _, b := range anp.Blocks {
		for _, in := range b.Instrs {
			if bo, ok := in.(*ssa.BinOp); ok {
				if s, ok := constString(bo.Y); ok && strings.Contains(s, "go:linkname") {
					appended = s
				}
			}
		}
	}
	if find == "" || replace == "" || appended == "" {
		c.Undecided("R08.5", "abiNamePatch constants", w.Pos(anp.Pos()), "cannot read the find/replace/appended texts")
		return
	}
	abiFind = find
	c.Check(strings.Contains(replace, "_originalNames("+strings.TrimPrefix(find, "return ")+")"), "R08.5", "abiNamePatch replacement wraps the original expression", w.Pos(anp.Pos()),
		"return _originalNames(<original>)", "the replacement no longer passes the original name through _originalNames")
	// linkname names: appended text vs reflect_abi_code.go
	rx := regexp.MustCompile(`//go:linkname (\w+)`)
	var abiSide []string
	for _, m := range rx.FindAllStringSubmatch(appended, -1) {
		abiSide = append(abiSide, m[1])
	}
	code, err := os.ReadFile(filepath.Join(w.Repo, "reflect_abi_code.go"))
	if err != nil {
		c.Undecided("R08.5", "reflect_abi_code.go", "", err.Error())
		return
	}
	rx2 := regexp.MustCompile(`//disabledgo:linkname (\w+) internal/abi\.(\w+)`)
	mainSide := map[string]string{}
	for _, m := range rx2.FindAllStringSubmatch(string(code), -1) {
		mainSide[m[2]] = m[1]
	}
	for _, n := range abiSide {
		c.Check(mainSide[n] == n, "R08.5", "linkname "+n, "", "declared in internal/abi and implemented in the injected code under the same name",
			"internal/abi declares //go:linkname "+n+" but the injected code provides "+fmt.Sprint(mainSide)+": the link fails or the hook is never called")
	}
	if len(abiSide) < 2 {
		c.Bad("R08.5", "linkname declarations", w.Pos(anp.Pos()), "expected the two linknamed functions _originalNames and _originalNamesInit")
	}
	// the variable filled by reflectMainPostPatch exists in the injected code
	if rp := w.Fn("reflectMainPostPatch"); rp != nil {
		varName := ""
		for _, b := range rp.Blocks {
			for _, in := range b.Instrs {
				for _, op := range in.Operands(nil) {
					if s, ok := constString(*op); ok && strings.HasPrefix(s, "_original") {
						varName = s
					}
				}
			}
		}
		c.Check(varName != "" && strings.Contains(string(code), "var "+varName+" = []string{}"), "R08.5", "name table variable "+varName, w.Pos(rp.Pos()),
			"declared as an empty []string in the injected code, filled by text replacement", "reflectMainPostPatch fills "+varName+", which the injected code does not declare as `var "+varName+" = []string{}`")
	}
	ruleMethodSignatureUnnamedOnly(c)
	ruleWalkerCutsOnlyOnCycles(c)
}

// ruleWalkerCutsOnlyOnCycles is R08.7. The walker that records a reflected type descends
// from a named type into its underlying type. That descent may be cut only where it cannot
// lose anything: the type was visited already (cycle), it is a universe type without a
// package, or it is recorded as reflected already. Any other early return — for instance
// "nothing new was recorded", which is also the case for a type of a package that is not
// obfuscated — stops the walk above types and fields of obfuscated packages that are
// reachable only through it (wire.Envelope{Items []model.Item} under a partial GOGARBLE).
func ruleWalkerCutsOnlyOnCycles(c *Ctx) {
	w := c.W
	c.Rule("R08.7", "the reflected-type walker stops early only on visited types, universe types and types already recorded", 1)
	walker := w.Fn("(*reflectInspector).recursivelyRecordUsedForReflectImpl")
	if walker == nil {
		c.Undecided("R08.7", "walker early returns", "", "walker not found")
		return
	}
	var body *ssa.BasicBlock
	for _, ts := range typeSwitches(walker) {
		for _, cse := range ts.Cases {
			if strings.HasSuffix(cse.Type.String(), "types.Named") {
				body = cse.Body
			}
		}
	}
	if body == nil {
		c.Undecided("R08.7", "walker early returns", w.Pos(walker.Pos()), "no case for *types.Named")
		return
	}
	bad, n := "", 0
	for _, r := range returnsOf(walker) {
		if !body.Dominates(r.Block()) {
			continue
		}
		// a return that follows the recursive call is the normal end of the case
		after := false
		for _, cs := range w.CallsToFn(walker) {
			if cs.Fn == walker && body.Dominates(cs.Instr.Block()) && dominatesInstr(cs.Instr, r) {
				after = true
			}
		}
		if after {
			continue
		}
		n++
		ok := false
		for _, f := range edgeFacts(r.Block()) {
			if !body.Dominates(ifBlockOf(f, walker)) {
				continue
			}
			nf := normFact(f)
			if v, nonNil, isNil := nilTest(nf.V); isNil && nf.Outcome != nonNil {
				if call, isCall := v.(*ssa.Call); isCall && calleeName(call) == "(go/types.Object).Pkg" || strings.HasSuffix(calleeNameOf(v), ").Pkg") {
					ok = true // universe type
				}
			}
			if call, isCall := nf.V.(*ssa.Call); isCall && nf.Outcome && strings.HasSuffix(calleeName(call), ".usedForReflect") {
				ok = true // recorded already: prevents endless recursion
			}
		}
		if !ok {
			bad = "the *types.Named case returns at " + w.Pos(r.Pos()) + " before descending into the underlying type, for a reason other than 'universe type' or 'already recorded': types and fields of obfuscated packages that are reachable only through such a type are never recorded"
		}
	}
	c.Check(bad == "", "R08.7", "walker early returns in the *types.Named case", w.Pos(body.Instrs[0].Pos()), fmt.Sprintf("%d early returns, all cycle/universe cuts", n), bad)
}

// ifBlockOf: the block whose If produced the fact (the dominating block that tests f.V).
func ifBlockOf(f condFact, fn *ssa.Function) *ssa.BasicBlock {
	for _, b := range fn.Blocks {
		if iff := ifOf(b); iff != nil && iff.Cond == f.V {
			return b
		}
	}
	return fn.Blocks[0]
}

func calleeNameOf(v ssa.Value) string {
	if call, ok := v.(*ssa.Call); ok {
		return calleeName(call)
	}
	return ""
}

// ruleMethodSignatureUnnamedOnly is R08.6. The heuristic "an exported method with an
// unnamed struct parameter keeps that struct's names" must stay restricted to *unnamed*
// struct types (which cannot be told apart from their uses in reflection-based callers).
// A struct test made on Underlying() also matches every named struct: its name, its
// fields and everything reachable from them are then kept verbatim in the binary (C02),
// for types that never reach reflection.
func ruleMethodSignatureUnnamedOnly(c *Ctx) {
	w := c.W
	c.Rule("R08.6", "the method-signature heuristic marks unnamed struct types only (the struct test is not made on Underlying())", 1)
	cms := w.Fn("(*reflectInspector).checkMethodSignature")
	if cms == nil {
		c.Undecided("R08.6", "checkMethodSignature", "", "function not found")
		return
	}
	fns := []*ssa.Function{cms}
	seen := map[*ssa.Function]bool{cms: true}
	for name, fn := range w.funcs { // the body of "for param := range sig.Params().Variables()"
		if strings.HasPrefix(name, "(*reflectInspector).checkMethodSignature$") {
			fns = append(fns, fn)
			seen[fn] = true
		}
	}
	for i := 0; i < len(fns) && i < 8; i++ {
		for _, b := range fns[i].Blocks {
			for _, in := range b.Instrs {
				if call, ok := in.(*ssa.Call); ok {
					if callee := call.Call.StaticCallee(); callee != nil && callee.Pkg == cms.Pkg && !seen[callee] &&
						!strings.Contains(callee.Name(), "recursivelyRecordUsedForReflect") {
						seen[callee] = true
						fns = append(fns, callee)
					}
				}
			}
		}
	}
	n, bad := 0, ""
	for _, fn := range fns {
		for _, b := range fn.Blocks {
			for _, in := range b.Instrs {
				ta, ok := in.(*ssa.TypeAssert)
				if !ok || !strings.HasSuffix(ta.AssertedType.String(), "types.Struct") {
					continue
				}
				n++
				if w.BackSlice(ta.X, sliceOpt{}).HasCall("(go/types.Type).Underlying") {
					bad = "the struct test at " + w.Pos(ta.Pos()) + " (" + w.FuncName(fn) + ") is made on Underlying(): named struct types in []S / [N]S parameters of exported methods are treated as reflected, and their names and fields stay in the binary"
				}
			}
		}
	}
	if n == 0 {
		c.Undecided("R08.6", "checkMethodSignature struct tests", w.Pos(cms.Pos()), "no *types.Struct test found: the heuristic is not where it used to be")
		return
	}
	c.Check(bad == "", "R08.6", "checkMethodSignature struct tests", w.Pos(cms.Pos()), fmt.Sprintf("%d tests, all on the type itself", n), bad)
}

var abiFind string

// R08.5 (toolchain side)
func checkC08goroot(c *Ctx) {
	if abiFind == "" {
		return
	}
	for _, goroot := range gorootsFor(c.Tier) {
		gv := gorootName(goroot)
		data, err := os.ReadFile(filepath.Join(goroot, "src", "internal", "abi", "type.go"))
		if err != nil {
			c.Undecided("R08.5", "internal/abi/type.go of "+gv, "", err.Error())
			continue
		}
		n := strings.Count(string(data), abiFind)
		c.Check(n == 1, "R08.5", "anchor text in internal/abi/type.go ("+gv+")", "GOROOT/src/internal/abi/type.go", "occurs exactly once",
			fmt.Sprintf("the text abiNamePatch replaces occurs %d times in %s's internal/abi/type.go: names are never (or wrongly) passed through _originalNames", n, gv))
	}
}
