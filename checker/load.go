package main

import (
	"fmt"
	"go/ast"
	"go/token"
	"go/types"
	"os"
	"path/filepath"
	"sort"
	"strings"

	"golang.org/x/tools/go/packages"
	"golang.org/x/tools/go/ssa"
	"golang.org/x/tools/go/ssa/ssautil"
)

const (
	modulePath    = "mvdan.cc/garble"
	defaultConfig = "linux/amd64"
)

// Paths of the toolchains present in the sandbox.
var (
	goroot1268 = "/opt/veriftools/go1.26.8"
	goroot1262 = "/root/go/pkg/mod/golang.org/toolchain@v0.0.1-go1.26.2.linux-amd64"
)

// BuildConfig is one build configuration of /repo to analyse.
type BuildConfig struct {
	GOOS, GOARCH string
	Tags         string
}

func (b BuildConfig) String() string {
	s := b.GOOS + "/" + b.GOARCH
	if b.Tags != "" {
		s += "+" + b.Tags
	}
	return s
}

// repoOverlay replaces file contents while loading (used only by the mutant
// self-test: single-edit variants of /repo analysed without touching the tree).
var repoOverlay map[string][]byte

// World is the loaded, type-checked program plus SSA.
type World struct {
	Repo   string
	Cfg    BuildConfig
	Fset   *token.FileSet
	Roots  []*packages.Package          // the module's packages
	All    map[string]*packages.Package // whole closure by path
	Prog   *ssa.Program
	SSA    map[string]*ssa.Package // module packages
	Main   *packages.Package
	funcs  map[string]*ssa.Function // qualified name -> function (module only, incl. methods)
	decls  map[*types.Func]*ast.FuncDecl
	declPk map[*types.Func]*packages.Package
}

func loaderEnv(goroot string, cfg BuildConfig) []string {
	env := []string{}
	for _, kv := range os.Environ() {
		k, _, _ := strings.Cut(kv, "=")
		switch k {
		case "GOFLAGS", "GOPROXY", "GOSUMDB", "GOTOOLCHAIN", "GOWORK", "PATH", "GOOS", "GOARCH", "GOROOT", "CGO_ENABLED":
			continue
		}
		env = append(env, kv)
	}
	env = append(env,
		"GOFLAGS=-mod=mod", "GOPROXY=off", "GOSUMDB=off", "GOTOOLCHAIN=local", "GOWORK=off",
		"PATH="+filepath.Join(goroot, "bin")+":"+os.Getenv("PATH"),
		"GOROOT="+goroot,
		"GOOS="+cfg.GOOS, "GOARCH="+cfg.GOARCH, "CGO_ENABLED=0",
	)
	return env
}

// pickGoroot returns the toolchain used to load /repo.
func pickGoroot() string {
	if _, err := os.Stat(filepath.Join(goroot1268, "bin", "go")); err == nil {
		return goroot1268
	}
	return goroot1262
}

// LoadRepo loads all packages of the module in repo for one build configuration.
func LoadRepo(repo string, cfg BuildConfig) (*World, error) {
	fset := token.NewFileSet()
	pcfg := &packages.Config{
		Mode:    packages.LoadAllSyntax,
		Dir:     repo,
		Fset:    fset,
		Env:     loaderEnv(pickGoroot(), cfg),
		Tests:   false,
		Overlay: repoOverlay,
	}
	if cfg.Tags != "" {
		pcfg.BuildFlags = []string{"-tags=" + cfg.Tags}
	}
	roots, err := packages.Load(pcfg, "./...")
	if err != nil {
		return nil, fmt.Errorf("loading %s: %v", repo, err)
	}
	w := &World{Repo: repo, Cfg: cfg, Fset: fset, All: map[string]*packages.Package{}, SSA: map[string]*ssa.Package{},
		funcs: map[string]*ssa.Function{}, decls: map[*types.Func]*ast.FuncDecl{}, declPk: map[*types.Func]*packages.Package{}}
	var errs []string
	packages.Visit(roots, nil, func(p *packages.Package) {
		w.All[p.PkgPath] = p
		for _, e := range p.Errors {
			errs = append(errs, e.Error())
		}
	})
	if len(errs) > 0 {
		sort.Strings(errs)
		if len(errs) > 8 {
			errs = errs[:8]
		}
		return nil, fmt.Errorf("package errors (the tree does not type-check for %s):\n  %s", cfg, strings.Join(errs, "\n  "))
	}
	for _, p := range roots {
		if p.PkgPath == modulePath || strings.HasPrefix(p.PkgPath, modulePath+"/") {
			// skip scripts/ (package main helper programs are not part of garble)
			if strings.HasPrefix(p.PkgPath, modulePath+"/scripts") {
				continue
			}
			w.Roots = append(w.Roots, p)
			if p.PkgPath == modulePath {
				w.Main = p
			}
		}
	}
	if len(w.Roots) < 6 {
		return nil, fmt.Errorf("expected at least 6 garble packages, loaded %d", len(w.Roots))
	}
	if len(w.All) < 150 {
		return nil, fmt.Errorf("expected at least 150 packages in the closure, loaded %d", len(w.All))
	}
	if w.Main == nil {
		return nil, fmt.Errorf("package %s not found", modulePath)
	}
	prog, _ := ssautil.AllPackages(roots, ssa.InstantiateGenerics)
	w.Prog = prog
	for _, p := range w.Roots {
		sp := prog.Package(p.Types)
		if sp == nil {
			return nil, fmt.Errorf("no SSA package for %s", p.PkgPath)
		}
		sp.Build()
		w.SSA[p.PkgPath] = sp
		for _, f := range p.Syntax {
			for _, d := range f.Decls {
				if fd, ok := d.(*ast.FuncDecl); ok {
					if obj, ok := p.TypesInfo.Defs[fd.Name].(*types.Func); ok {
						w.decls[obj] = fd
						w.declPk[obj] = p
					}
				}
			}
		}
	}
	// index functions (and their anonymous functions) by qualified name
	for fn := range ssautil.AllFunctions(prog) {
		if fn.Pkg == nil || w.SSA[fn.Pkg.Pkg.Path()] == nil {
			continue
		}
		if fn.Synthetic != "" && !strings.HasPrefix(fn.Synthetic, "package init") && !strings.HasPrefix(fn.Synthetic, "range-over-func") {
			continue
		}
		w.funcs[w.FuncName(fn)] = fn
	}
	return w, nil
}

// FuncName gives the key used in rule instance keys: pkg-relative, stable.
//
//	main package: "transformLink", "(*transformer).transformLink", "commandReverse$1"
//	others:       "literals.Obfuscate", "(linker).x"
func (w *World) FuncName(fn *ssa.Function) string {
	if fn == nil {
		return "<nil>"
	}
	if fn.Parent() != nil {
		// anonymous: parent name + index suffix as go/ssa names it
		return w.FuncName(fn.Parent()) + strings.TrimPrefix(fn.Name(), fn.Parent().Name())
	}
	name := fn.Name()
	if recv := fn.Signature.Recv(); recv != nil {
		t := recv.Type()
		ptr := ""
		if p, ok := t.(*types.Pointer); ok {
			t = p.Elem()
			ptr = "*"
		}
		tn := "?"
		if n, ok := types.Unalias(t).(*types.Named); ok {
			tn = n.Obj().Name()
		}
		name = "(" + ptr + tn + ")." + fn.Name()
	}
	if fn.Pkg != nil && fn.Pkg.Pkg.Path() != modulePath {
		return shortPkg(fn.Pkg.Pkg.Path()) + "." + name
	}
	return name
}

func shortPkg(path string) string {
	if strings.HasPrefix(path, modulePath+"/internal/") {
		return strings.TrimPrefix(path, modulePath+"/internal/")
	}
	return path
}

// Fn returns a module function by its key name; nil if absent.
func (w *World) Fn(name string) *ssa.Function { return w.funcs[name] }

// ModuleFuncs returns all module functions (including anonymous ones), sorted by name.
func (w *World) ModuleFuncs() []*ssa.Function {
	var names []string
	for n := range w.funcs {
		names = append(names, n)
	}
	sort.Strings(names)
	out := make([]*ssa.Function, 0, len(names))
	for _, n := range names {
		out = append(out, w.funcs[n])
	}
	return out
}

func (w *World) Pos(p token.Pos) string {
	if !p.IsValid() {
		return ""
	}
	pos := w.Fset.Position(p)
	rel, err := filepath.Rel(w.Repo, pos.Filename)
	if err != nil || strings.HasPrefix(rel, "..") {
		rel = pos.Filename
	}
	return fmt.Sprintf("%s:%d", rel, pos.Line)
}

// Decl returns the syntax of a module function.
func (w *World) Decl(fn *ssa.Function) (*ast.FuncDecl, *packages.Package) {
	for fn != nil && fn.Parent() != nil {
		fn = fn.Parent()
	}
	if fn == nil {
		return nil, nil
	}
	obj, _ := fn.Object().(*types.Func)
	if obj == nil {
		return nil, nil
	}
	return w.decls[obj], w.declPk[obj]
}

// Pkg returns a module package by short name ("", "literals", "ctrlflow", ...).
func (w *World) Pkg(short string) *packages.Package {
	path := modulePath
	if short != "" {
		path = modulePath + "/internal/" + short
	}
	return w.All[path]
}

// Object looks up a package-level object of a module package.
func (w *World) Object(short, name string) types.Object {
	p := w.Pkg(short)
	if p == nil {
		return nil
	}
	return p.Types.Scope().Lookup(name)
}

func moduleVersion(p *packages.Package) string {
	if p != nil && p.Module != nil {
		return p.Module.Version
	}
	return "?"
}

// GorootWorld is a set of type-checked packages of a Go toolchain's own source.
type GorootWorld struct {
	Goroot string
	Fset   *token.FileSet
	Roots  []*packages.Package
	All    map[string]*packages.Package
}

// LoadGoroot type-checks packages of the given GOROOT from source (with the
// go command of that GOROOT, so that build constraints and vendoring are its own).
func LoadGoroot(goroot string, cfg BuildConfig, mode packages.LoadMode, patterns ...string) (*GorootWorld, error) {
	fset := token.NewFileSet()
	env := loaderEnv(goroot, cfg)
	// std/cmd are loaded without -mod=mod
	for i, kv := range env {
		if strings.HasPrefix(kv, "GOFLAGS=") {
			env[i] = "GOFLAGS="
		}
	}
	pcfg := &packages.Config{Mode: mode, Dir: filepath.Join(goroot, "src"), Fset: fset, Env: env}
	if cfg.Tags != "" {
		pcfg.BuildFlags = []string{"-tags=" + cfg.Tags}
	}
	// the driver runs "go" from PATH: point it at this GOROOT for the call
	oldPath := os.Getenv("PATH")
	os.Setenv("PATH", filepath.Join(goroot, "bin")+":"+oldPath)
	defer os.Setenv("PATH", oldPath)
	roots, err := packages.Load(pcfg, patterns...)
	if err != nil {
		return nil, fmt.Errorf("loading %v from %s: %v", patterns, goroot, err)
	}
	g := &GorootWorld{Goroot: goroot, Fset: fset, Roots: roots, All: map[string]*packages.Package{}}
	var errs []string
	packages.Visit(roots, nil, func(p *packages.Package) {
		g.All[p.PkgPath] = p
		for _, e := range p.Errors {
			errs = append(errs, e.Error())
		}
	})
	if len(errs) > 0 {
		if len(errs) > 5 {
			errs = errs[:5]
		}
		return nil, fmt.Errorf("errors loading %v from %s:\n  %s", patterns, goroot, strings.Join(errs, "\n  "))
	}
	for _, r := range roots {
		if !strings.HasPrefix(r.GoFiles[0], goroot) {
			return nil, fmt.Errorf("package %s was loaded from %s, not from %s: the loader picked up another toolchain", r.PkgPath, r.GoFiles[0], goroot)
		}
	}
	return g, nil
}

func (g *GorootWorld) Pos(p token.Pos) string {
	if !p.IsValid() {
		return ""
	}
	pos := g.Fset.Position(p)
	rel, err := filepath.Rel(g.Goroot, pos.Filename)
	if err != nil {
		rel = pos.Filename
	}
	return fmt.Sprintf("GOROOT/%s:%d", rel, pos.Line)
}

// gorootsFor returns the toolchains to analyse: the one the test suite runs
// with (go1.26.2, from the module cache) in quick, both in thorough.
func gorootsFor(tier string) []string {
	var out []string
	if _, err := os.Stat(filepath.Join(goroot1262, "src", "runtime")); err == nil {
		out = append(out, goroot1262)
	}
	if _, err := os.Stat(filepath.Join(goroot1268, "src", "runtime")); err == nil && (tier == "thorough" || len(out) == 0) {
		out = append(out, goroot1268)
	}
	return out
}

func gorootName(goroot string) string {
	data, err := os.ReadFile(filepath.Join(goroot, "VERSION"))
	if err != nil {
		return filepath.Base(goroot)
	}
	line, _, _ := strings.Cut(string(data), "\n")
	return strings.TrimSpace(line)
}
