package main

import (
	"fmt"
	"go/token"
	"regexp"
	"strings"

	"golang.org/x/tools/go/ssa"
)

// E7 guards — is an operation on a package dominated by the true edge of a
// test of that same package's ToObfuscate field?

// accessPath gives a structural name to a value so that two loads of the same
// place compare equal (go/ssa does no CSE).
func accessPath(v ssa.Value) string {
	switch x := v.(type) {
	case *ssa.Parameter:
		return "param:" + x.Name()
	case *ssa.FreeVar:
		return "free:" + x.Name()
	case *ssa.Global:
		return "global:" + x.Name()
	case *ssa.UnOp:
		if x.Op == token.MUL {
			return "*" + accessPath(x.X)
		}
	case *ssa.FieldAddr:
		return accessPath(x.X) + "." + fieldName(x.X.Type(), x.Field)
	case *ssa.Field:
		return accessPath(x.X) + "." + fieldName(x.X.Type(), x.Field)
	case *ssa.ChangeType:
		return accessPath(x.X)
	}
	return fmt.Sprintf("val:%p", v)
}

// normFact strips negations: (!x, o) becomes (x, !o).
func normFact(f condFact) condFact {
	for {
		u, ok := f.V.(*ssa.UnOp)
		if !ok || u.Op != token.NOT {
			return f
		}
		f = condFact{u.X, !f.Outcome}
	}
}

// toObfuscateOf: if v is a load of <pkg>.ToObfuscate, return the access path of <pkg>.
func toObfuscateOf(v ssa.Value) (string, bool) {
	ld, ok := v.(*ssa.UnOp)
	if !ok || ld.Op != token.MUL {
		return "", false
	}
	fa, ok := ld.X.(*ssa.FieldAddr)
	if !ok || fieldName(fa.X.Type(), fa.Field) != "ToObfuscate" || namedOf(fa.X.Type()) != "listedPackage" {
		return "", false
	}
	return accessPath(fa.X), true
}

var rootTok = regexp.MustCompile(`(param|free):[A-Za-z0-9_$]+`)

// guardedByToObfuscate reports whether instruction `at` only executes when
// ToObfuscate of the package value pkg is true. how explains where the guard is.
func guardedByToObfuscate(w *World, at ssa.Instruction, pkg ssa.Value, depth int) (bool, string) {
	return guardedPath(w, at, accessPath(pkg), depth)
}

// guardedPath works on access paths so that the guard may sit in a caller
// (helpers: at every call site) or where a closure is created.
func guardedPath(w *World, at ssa.Instruction, want string, depth int) (bool, string) {
	fn := at.Parent()
	for _, f := range edgeFacts(at.Block()) {
		nf := normFact(f)
		if p, ok := toObfuscateOf(nf.V); ok && nf.Outcome && p == want {
			return true, "guarded in " + w.FuncName(fn)
		}
	}
	if depth >= 3 {
		return false, ""
	}
	tok := rootTok.FindString(want)
	switch {
	case strings.HasPrefix(tok, "free:"):
		name := strings.TrimPrefix(tok, "free:")
		idx := -1
		for i, fv := range fn.FreeVars {
			if fv.Name() == name {
				idx = i
			}
		}
		parent := fn.Parent()
		if parent == nil || idx < 0 {
			return false, ""
		}
		all, any := true, false
		for _, b := range parent.Blocks {
			for _, in := range b.Instrs {
				if mc, ok := in.(*ssa.MakeClosure); ok && mc.Fn == ssa.Value(fn) {
					any = true
					sub := strings.Replace(want, tok, accessPath(mc.Bindings[idx]), 1)
					if ok2, _ := guardedPath(w, mc, sub, depth+1); !ok2 {
						all = false
					}
				}
			}
		}
		if any && all {
			return true, "guarded where the closure is created in " + w.FuncName(parent)
		}
	case strings.HasPrefix(tok, "param:"):
		name := strings.TrimPrefix(tok, "param:")
		idx := -1
		for i, p := range fn.Params {
			if p.Name() == name {
				idx = i
			}
		}
		sites := w.CallsToFn(fn)
		if len(sites) == 0 || idx < 0 {
			return false, ""
		}
		for _, cs := range sites {
			args := cs.Instr.Common().Args
			if idx >= len(args) {
				return false, ""
			}
			sub := strings.Replace(want, tok, accessPath(args[idx]), 1)
			if ok, _ := guardedPath(w, cs.Instr, sub, depth+1); !ok {
				return false, ""
			}
		}
		return true, fmt.Sprintf("guarded at all %d call sites of %s", len(sites), w.FuncName(fn))
	}
	return false, ""
}
