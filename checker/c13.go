package main

import (
	"fmt"
	"go/token"
	"sort"
	"strings"

	"golang.org/x/tools/go/ssa"
)

func init() {
	register(&propCheck{
		id: "C13",
		explain: "Decides the single-source clauses behind 'garble map, the build and garble reverse agree on every name': " +
			"(R13.1) every name garble map prints comes from transformer.obfuscatedObjectName and every path from obfuscatedImportPath — the functions the compiler path uses — and map contains no hashing of its own; " +
			"(R13.2) field-read coverage: every field of the transformer that obfuscatedObjectName (transitively) reads is initialised by transformerForListedPackage, the constructor used by map and reverse, so the naming decision cannot depend on state only the compiler path has; " +
			"(R13.3) build, map and reverse fill the package list through the same toolexecCmd -> appendListedPackages path, and type-check a package with its own import path and the importer built for that same package; " +
			"(R13.4) garble map skips an object only if it has no object, is not package-level/field/method, is not obfuscated, or has no object path. " +
			"Does not decide that compile-time type information equals that of go list files (cgo, test variants), nor objectpath's coverage.",
		perConfig: checkC13,
	})
}

func checkC13(c *Ctx) {
	w := c.W
	c.Rule("R13.1", "garble map takes names and paths from the compiler path's naming functions only", 3)
	cm := w.Fn("commandMap")
	oon := w.Fn("(*transformer).obfuscatedObjectName")
	tflp := w.Fn("transformerForListedPackage")
	if cm == nil || oon == nil || tflp == nil {
		c.Undecided("R13.1", "commandMap/obfuscatedObjectName/transformerForListedPackage", "", "anchor functions not found")
		return
	}
	mapFns := map[*ssa.Function]bool{cm: true}
	for _, f := range cm.AnonFuncs {
		mapFns[f] = true
	}
	nameOK, nNames := true, 0
	for f := range mapFns {
		for _, b := range f.Blocks {
			for _, in := range b.Instrs {
				mu, ok := in.(*ssa.MapUpdate)
				if !ok {
					continue
				}
				if mu.Map.Type().String() != "map[string]string" {
					continue
				}
				nNames++
				sl := w.BackSlice(mu.Value, sliceOpt{})
				if !sl.HasCall("(*mvdan.cc/garble.transformer).obfuscatedObjectName") || sl.HasCall("mvdan.cc/garble.hashWithPackage") || sl.HasCall("mvdan.cc/garble.hashWithStruct") {
					nameOK = false
				}
			}
		}
	}
	c.Check(nameOK && nNames > 0, "R13.1", "commandMap object names", w.Pos(cm.Pos()), "objects[path] = tf.obfuscatedObjectName(obj)", "garble map prints names that do not come from obfuscatedObjectName")
	pathOK := false
	for f := range mapFns {
		for _, b := range f.Blocks {
			for _, in := range b.Instrs {
				if st, ok := in.(*ssa.Store); ok {
					if fa, ok := st.Addr.(*ssa.FieldAddr); ok && namedOf(fa.X.Type()) == "mapPackage" && fieldName(fa.X.Type(), fa.Field) == "Path" {
						pathOK = w.BackSlice(st.Val, sliceOpt{}).HasCall("(*mvdan.cc/garble.listedPackage).obfuscatedImportPath")
					}
				}
			}
		}
	}
	c.Check(pathOK, "R13.1", "commandMap import paths", w.Pos(cm.Pos()), "mapPackage.Path = lpkg.obfuscatedImportPath()", "garble map prints a path that does not come from obfuscatedImportPath")
	var adhoc []string
	for f := range mapFns {
		for _, b := range f.Blocks {
			for _, in := range b.Instrs {
				if ci, ok := in.(ssa.CallInstruction); ok {
					n := calleeName(ci)
					if strings.HasSuffix(n, ".hashWithPackage") || strings.HasSuffix(n, ".hashWithStruct") || strings.HasSuffix(n, ".hashWithCustomSalt") || strings.HasPrefix(n, "crypto/") {
						adhoc = append(adhoc, n+" at "+w.Pos(in.Pos()))
					}
				}
			}
		}
	}
	c.Check(len(adhoc) == 0, "R13.1", "commandMap has no hashing of its own", w.Pos(cm.Pos()), "no direct hash call", "garble map hashes names itself: "+strings.Join(adhoc, ", "))

	// R13.2 ---------------------------------------------------------------
	c.Rule("R13.2", "every transformer field the naming decision reads is set by the constructor map and reverse use", 2)
	g := w.Graph()
	reach, _ := g.Reach(oon)
	read := map[string]string{}
	for fn := range reach {
		for _, b := range fn.Blocks {
			for _, in := range b.Instrs {
				if fa, ok := in.(*ssa.FieldAddr); ok && namedOf(fa.X.Type()) == "transformer" {
					read[fieldName(fa.X.Type(), fa.Field)] = w.FuncName(fn) + " at " + w.Pos(fa.Pos())
				}
				if f, ok := in.(*ssa.Field); ok && namedOf(f.X.Type()) == "transformer" {
					read[fieldName(f.X.Type(), f.Field)] = w.FuncName(fn) + " at " + w.Pos(f.Pos())
				}
			}
		}
	}
	set := map[string]bool{}
	for _, b := range tflp.Blocks {
		for _, in := range b.Instrs {
			if st, ok := in.(*ssa.Store); ok {
				if fa, ok := st.Addr.(*ssa.FieldAddr); ok && namedOf(fa.X.Type()) == "transformer" {
					set[fieldName(fa.X.Type(), fa.Field)] = true
				}
			}
		}
	}
	c.Count("functions reachable from obfuscatedObjectName", len(reach))
	for _, f := range sortedKeys(read) {
		c.Check(set[f], "R13.2", "transformer."+f, read[f], "read by the naming decision ("+read[f]+") and set by transformerForListedPackage",
			"the naming decision reads transformer."+f+" ("+read[f]+"), which transformerForListedPackage leaves unset: garble map and reverse would name objects differently from the build")
	}
	if len(read) == 0 {
		c.Bad("R13.2", "transformer fields read", w.Pos(oon.Pos()), "obfuscatedObjectName reads no transformer field")
	}

	// R13.3 ---------------------------------------------------------------
	c.Rule("R13.3", "one path fills the package list for build, map and reverse; packages are type-checked with their own path and importer", 5)
	tc := w.Fn("toolexecCmd")
	alp := w.Fn("appendListedPackages")
	callers := map[string]bool{}
	for _, cs := range w.CallsToFn(alp) {
		callers[w.FuncName(cs.Fn)] = true
	}
	var cl []string
	for k := range callers {
		cl = append(cl, k)
	}
	sort.Strings(cl)
	c.Check(callers["toolexecCmd"] && len(callers) <= 2 && (len(callers) == 1 || callers["appendListedPackages"]), "R13.3", "appendListedPackages callers", "", "only toolexecCmd (and its own file-mode recursion)",
		fmt.Sprintf("the package list is filled from %v: commands can see different facts", cl))
	tcCallers := map[string]bool{}
	for _, cs := range w.CallsToFn(tc) {
		tcCallers[w.FuncName(cs.Fn)] = true
	}
	for _, want := range []string{"mainErr", "commandMap", "commandReverse"} {
		c.Check(tcCallers[want], "R13.3", want+" lists packages through toolexecCmd", "", "same flags, same GarbleActionID definition", want+" no longer fills the package list through toolexecCmd")
	}
	// typecheck calls: import path and importer of the same package
	tcheck := w.Fn("typecheck")
	okTC, n := true, 0
	why := ""
	for _, cs := range w.CallsToFn(tcheck) {
		n++
		ps := w.BackSlice(cs.Args()[0], sliceOpt{})
		is := w.BackSlice(cs.Args()[2], sliceOpt{Depth: 2, ToCallers: true})
		if !ps.Fields["listedPackage.ImportPath"] {
			okTC, why = false, "type-checked under a path that is not the listed package's ImportPath at "+w.Pos(cs.Instr.Pos())
		}
		if !is.HasCall("mvdan.cc/garble.importerForPkg") && !is.Fields["transformer.origImporter"] {
			okTC, why = false, "type-checked with an importer not built by importerForPkg at "+w.Pos(cs.Instr.Pos())
		}
	}
	c.Check(okTC && n >= 3, "R13.3", "typecheck operands", "", fmt.Sprintf("%d call sites use <pkg>.ImportPath and importerForPkg(<pkg>)", n), why)

	// R13.4 ---------------------------------------------------------------
	c.Rule("R13.4", "garble map omits an object only for the documented reasons", 1)
	// inside the loop over info.Defs: edges that continue
	var header *ssa.BasicBlock
	for f := range mapFns {
		for _, b := range f.Blocks {
			for _, in := range b.Instrs {
				if r, ok := in.(*ssa.Range); ok && w.BackSlice(r.X, sliceOpt{}).Fields["Info.Defs"] {
					for _, ref := range *r.Referrers() {
						if nx, ok := ref.(*ssa.Next); ok {
							header = nx.Block()
						}
					}
				}
			}
		}
	}
	if header == nil {
		c.Bad("R13.4", "commandMap loop over info.Defs", w.Pos(cm.Pos()), "garble map no longer enumerates info.Defs")
		return
	}
	var skips []string
	body := loopBlocks(header)
	for b := range body {
		iff := ifOf(b)
		if iff == nil || b == header || isLoopHeader(b) {
			continue
		}
		for i, sc := range b.Succs {
			if sc != header {
				continue
			}
			cond, outcome := iff.Cond, i == 0
			sl := w.BackSlice(cond, sliceOpt{})
			switch {
			case sl.HasCall("(*mvdan.cc/garble.transformer).obfuscatedObjectName") && !outcome:
				skips = append(skips, "not obfuscated")
			case sl.HasCall("(*golang.org/x/tools/go/types/objectpath.Encoder).For"):
				skips = append(skips, "no object path")
			case sl.HasCall("(go/types.Object).Parent") || sl.HasCall("(*go/types.Package).Scope"):
				skips = append(skips, "not package-level")
			case sl.HasCall("mvdan.cc/garble.namedType"):
				skips = append(skips, "embedded field of an unnamed type")
			default:
				if v, nonNil, ok := nilTest(cond); ok && outcome != nonNil {
					if _, isExtract := v.(*ssa.Extract); isExtract {
						skips = append(skips, "nil object")
						continue
					}
				}
				if bo, ok := cond.(*ssa.BinOp); ok && bo.Op == token.EQL && outcome {
					if k, ok := constString(bo.Y); ok && k == "_" && sl.HasCall("(go/types.Object).Name") {
						skips = append(skips, "blank identifier")
						continue
					}
				}
				skips = append(skips, "OTHER: "+condDesc(cond))
			}
		}
	}
	skips = dedup(skips)
	sort.Strings(skips)
	bad := ""
	for _, s := range skips {
		if strings.HasPrefix(s, "OTHER") {
			bad = s
		}
	}
	c.Check(bad == "", "R13.4", "commandMap skip reasons", w.Pos(cm.Pos()), "skips: "+strings.Join(skips, ", "), "garble map drops objects for an undocumented reason ("+bad+"): obfuscated API objects are missing from its output")

	// R13.5 ---------------------------------------------------------------
	// The build does not hand every identifier's object to the naming decision as it is:
	// the identifier visitor of transformGoFile leaves "_" alone and names an embedded
	// field after its *type* (the field's identifier is the type's name). garble map
	// enumerates objects instead of identifiers, so it must take the same two steps,
	// or it prints names the build never uses.
	c.Rule("R13.5", "garble map takes the same steps before the naming decision as the build's identifier visitor (blank names, embedded fields)", 2)
	has := func(k string) bool {
		for _, s := range skips {
			if s == k {
				return true
			}
		}
		return false
	}
	visitorBlank, visitorEmbedded := false, false
	for name, fn := range w.funcs {
		if !strings.HasPrefix(name, "(*transformer).transformGoFile$") {
			continue
		}
		for _, b := range fn.Blocks {
			for _, in := range b.Instrs {
				switch x := in.(type) {
				case *ssa.BinOp:
					if k, ok := constString(x.Y); ok && k == "_" && x.Op == token.EQL {
						visitorBlank = true
					}
				case *ssa.Call:
					if calleeName(x) == "(*go/types.Var).Embedded" {
						visitorEmbedded = true
					}
				}
			}
		}
	}
	if !visitorBlank && !visitorEmbedded {
		c.Undecided("R13.5", "identifier visitor pre-steps", "", "the identifier visitor of transformGoFile has neither step: the rule's reference moved")
	} else {
		c.Check(!visitorBlank || has("blank identifier"), "R13.5", "blank identifiers", w.Pos(cm.Pos()), "skipped by the visitor and by map",
			"the build keeps '_' but garble map lists a hashed name for blank fields (and garble reverse then rewrites that string to '_')")
		mapEmbedded := false
		for f := range mapFns {
			for _, cs := range w.CallsTo("(*mvdan.cc/garble.transformer).obfuscatedObjectName") {
				if cs.Fn != f {
					continue
				}
				if w.BackSlice(cs.Args()[len(cs.Args())-1], sliceOpt{}).HasCall("mvdan.cc/garble.namedType") {
					mapEmbedded = true
				}
			}
		}
		c.Check(!visitorEmbedded || mapEmbedded, "R13.5", "embedded fields", w.Pos(cm.Pos()), "named after their type by the visitor and by map",
			"the build names an embedded field after its type, garble map hashes it as an ordinary field with the struct salt: the listed name occurs nowhere in the build")
	}

	// R13.6 ---------------------------------------------------------------
	// garble reverse walks the syntax of each package; every kind of object that garble map
	// lists must have a case there, or its name is never mapped back.
	c.Rule("R13.6", "garble reverse has a case for every kind of object garble map lists (funcs, types, package-level vars, fields, interface methods)", 5)
	var revFns []*ssa.Function
	for name, fn := range w.funcs {
		if name == "commandReverse" || strings.HasPrefix(name, "commandReverse$") {
			revFns = append(revFns, fn)
		}
	}
	cases := map[string]*ssa.BasicBlock{}
	var fieldBody *ssa.BasicBlock
	var fieldFn *ssa.Function
	for _, fn := range revFns {
		for _, ts := range typeSwitches(fn) {
			for _, cse := range ts.Cases {
				t := cse.Type.String()
				if i := strings.LastIndex(t, "."); i >= 0 && strings.Contains(t, "go/ast") {
					cases[t[i+1:]] = cse.Body
					if t[i+1:] == "Field" {
						fieldBody, fieldFn = cse.Body, fn
					}
				}
			}
		}
	}
	for _, k := range []string{"FuncDecl", "TypeSpec", "ValueSpec", "Field"} {
		what := map[string]string{"FuncDecl": "functions and methods", "TypeSpec": "types", "ValueSpec": "package-level variables", "Field": "struct fields and interface methods"}[k]
		c.Check(cases[k] != nil, "R13.6", "reverse case *ast."+k, w.Pos(cm.Pos()), what,
			"garble reverse has no case for *ast."+k+": the names of "+what+" that garble map lists (and the build uses) are never mapped back")
	}
	ifaceMethods := false
	if fieldBody != nil {
		for _, b := range fieldFn.Blocks {
			if !fieldBody.Dominates(b) {
				continue
			}
			for _, in := range b.Instrs {
				if ta, ok := in.(*ssa.TypeAssert); ok && strings.HasSuffix(ta.AssertedType.String(), "types.Func") {
					ifaceMethods = true
				}
			}
		}
	}
	c.Check(ifaceMethods, "R13.6", "reverse handles interface methods", w.Pos(cm.Pos()), "the *ast.Field case recognises *types.Func",
		"the *ast.Field case only accepts struct fields: an unexported method that exists only in an interface is listed by garble map and renamed by the build, but never reversed")
}
