package main

import (
	"go/token"
	"go/types"
	"sort"
	"strings"

	"golang.org/x/tools/go/ssa"
)

// E1 detlint — determinism effects inside the region of garble that computes
// what is handed to the compiler, assembler and linker.

// detRegionRoots: the entry points whose results become tool input.
var detRegionRoots = []string{
	"(*transformer).transformCompile", "(*transformer).transformAsm", "(*transformer).transformLink",
	"alterToolVersion", "magicValue", "entryOffKey",
}

// detSite is one potential source of non-determinism.
type detSite struct {
	Kind   string // "D1" global/environmental source, "D2" unordered iteration, "D3" concurrency
	Fn     *ssa.Function
	Instr  ssa.Instruction
	What   string // normalised description used in the key
	Proved string // non-empty: why the site is harmless (auto-proved)
}

// global randomness / time / environment: package-level functions only.
func d1Source(name string) string {
	switch {
	case strings.HasPrefix(name, "math/rand."):
		switch name {
		case "math/rand.New", "math/rand.NewSource", "math/rand.NewZipf":
			return ""
		}
		return "process-global math/rand source"
	case strings.HasPrefix(name, "math/rand/v2."):
		switch name {
		case "math/rand/v2.New", "math/rand/v2.NewPCG", "math/rand/v2.NewChaCha8", "math/rand/v2.NewZipf":
			return ""
		}
		return "process-global math/rand/v2 source"
	case strings.HasPrefix(name, "crypto/rand."):
		return "crypto/rand"
	case name == "time.Now" || name == "time.Since" || name == "time.Until":
		return "wall clock"
	case name == "os.Getpid" || name == "os.Getppid" || name == "os.Hostname" || name == "os.Getuid" || name == "os.Getwd":
		return "process/host identity"
	case strings.HasPrefix(name, "hash/maphash."):
		return "per-process hash seed"
	case name == "runtime.NumCPU" || name == "runtime.GOMAXPROCS" || name == "runtime.NumGoroutine":
		return "machine-dependent value"
	}
	return ""
}

func isMapType(t types.Type) bool {
	_, ok := t.Underlying().(*types.Map)
	return ok
}

// loopBlocks returns the natural loop of header: header plus every block that
// can reach a back edge source without leaving through the header.
func loopBlocks(header *ssa.BasicBlock) map[*ssa.BasicBlock]bool {
	body := map[*ssa.BasicBlock]bool{header: true}
	var stack []*ssa.BasicBlock
	for _, p := range header.Preds {
		if header.Dominates(p) && !body[p] {
			body[p] = true
			stack = append(stack, p)
		}
	}
	for len(stack) > 0 {
		b := stack[len(stack)-1]
		stack = stack[:len(stack)-1]
		for _, p := range b.Preds {
			if !body[p] {
				body[p] = true
				stack = append(stack, p)
			}
		}
	}
	return body
}

// effectFingerprint summarises what a set of blocks does: effect kinds and module callees.
func effectFingerprint(w *World, blocks map[*ssa.BasicBlock]bool) string {
	kinds := map[string]bool{}
	for b := range blocks {
		for _, in := range b.Instrs {
			switch x := in.(type) {
			case *ssa.MapUpdate:
				kinds["mapupdate"] = true
			case *ssa.Store:
				if !localAddr(x.Addr) {
					kinds["store"] = true
				}
			case *ssa.Send:
				kinds["send"] = true
			case *ssa.Return:
				kinds["return"] = true
			case *ssa.Panic:
				kinds["panic"] = true
			case *ssa.Go:
				kinds["go"] = true
			case ssa.CallInstruction:
				n := calleeName(x)
				switch {
				case n == "builtin.append":
					kinds["append"] = true
				case n == "builtin.delete":
					kinds["delete"] = true
				case strings.HasPrefix(n, "builtin."):
				case n == "":
					kinds["call:<dynamic>"] = true
				default:
					if callee := calleeFunc(x); callee != nil && w.isModuleFn(callee) {
						kinds["call:"+w.FuncName(callee)] = true
					} else if strings.HasPrefix(n, "log.") || pureExternal(n) {
						// logging and pure library calls do not matter for ordering
					} else {
						kinds["ext:"+n] = true
					}
				}
			}
		}
	}
	return strings.Join(sortedKeys(kinds), ",")
}

// pureExternal: library calls without side effects that matter for ordering.
func pureExternal(n string) bool {
	for _, p := range []string{"go/types.", "(*go/types.", "(go/types.", "strings.", "go/token.", "(go/token.", "unicode.", "unicode/utf8.", "strconv.",
		"path/filepath.Base", "path/filepath.Join", "path/filepath.Ext", "go/constant.", "fmt.Sprint", "fmt.Errorf", "errors.", "bytes.", "slices.Contains", "slices.Index", "cmp.",
		"(*golang.org/x/tools/go/ssa.", "(golang.org/x/tools/go/ssa.", "go/ast.NewIdent", "(mvdan.cc/garble/internal/ctrlflow.methodSet)."} {
		if strings.HasPrefix(n, p) {
			return true
		}
	}
	return false
}

var pureMemo = map[*ssa.Function]int{} // 1 pure, 2 impure, 3 in progress

// isPureFn: no stores outside its own locals, no map updates, sends, defers,
// panics aside, and only pure callees. Conservative.
func isPureFn(w *World, fn *ssa.Function) bool {
	switch pureMemo[fn] {
	case 1, 3:
		return true
	case 2:
		return false
	}
	pureMemo[fn] = 3
	pure := true
	for _, b := range fn.Blocks {
		for _, in := range b.Instrs {
			switch x := in.(type) {
			case *ssa.MapUpdate, *ssa.Send, *ssa.Go, *ssa.Defer:
				pure = false
			case *ssa.Store:
				if !localAddr(x.Addr) {
					pure = false
				}
			case ssa.CallInstruction:
				n := calleeName(x)
				switch {
				case strings.HasPrefix(n, "builtin."):
					if n == "builtin.delete" || n == "builtin.copy" || n == "builtin.clear" {
						pure = false
					}
				case n == "":
					pure = false
				default:
					if callee := calleeFunc(x); callee != nil && w.isModuleFn(callee) {
						if !isPureFn(w, callee) {
							pure = false
						}
					} else if !pureExternal(n) {
						pure = false
					}
				}
			}
		}
	}
	if pure {
		pureMemo[fn] = 1
	} else {
		pureMemo[fn] = 2
	}
	return pure
}

// localAddr: address of (part of) a local allocation of the same function.
func localAddr(v ssa.Value) bool {
	switch x := v.(type) {
	case *ssa.Alloc:
		return true
	case *ssa.IndexAddr:
		return localAddr(x.X)
	case *ssa.FieldAddr:
		return localAddr(x.X)
	}
	return false
}

// flowsOnlyToLogging: every transitive use of v ends in a log.* call.
func flowsOnlyToLogging(w *World, v ssa.Value, seen map[ssa.Value]bool, depth int) bool {
	if seen[v] {
		return true
	}
	seen[v] = true
	if depth > 6 {
		return false
	}
	refs := v.Referrers()
	if refs == nil {
		return true
	}
	for _, r := range *refs {
		switch x := r.(type) {
		case *ssa.DebugRef:
		case *ssa.MakeInterface, *ssa.ChangeInterface, *ssa.ChangeType, *ssa.Convert, *ssa.Extract, *ssa.Phi, *ssa.Slice, *ssa.IndexAddr:
			if !flowsOnlyToLogging(w, x.(ssa.Value), seen, depth) {
				return false
			}
		case *ssa.Store:
			if x.Val != v && x.Addr == v {
				continue // a store into the (varargs) cell we are following
			}
			if !localAddr(x.Addr) || !flowsOnlyToLogging(w, baseAlloc(x.Addr), seen, depth) {
				return false
			}
		case *ssa.MakeClosure:
			fn := x.Fn.(*ssa.Function)
			for i, b := range x.Bindings {
				if b == v && i < len(fn.FreeVars) {
					if !flowsOnlyToLogging(w, fn.FreeVars[i], seen, depth+1) {
						return false
					}
				}
			}
		case *ssa.UnOp:
			if !flowsOnlyToLogging(w, x, seen, depth) {
				return false
			}
		case ssa.CallInstruction:
			n := calleeName(x)
			switch {
			case strings.HasPrefix(n, "log.Print"):
			case n == "time.Since", strings.HasPrefix(n, "(time.Duration)."), strings.HasPrefix(n, "(time.Time).Sub"):
				if val, ok := r.(ssa.Value); ok && !flowsOnlyToLogging(w, val, seen, depth) {
					return false
				}
			default:
				callee := calleeFunc(x)
				if callee == nil || !w.isModuleFn(callee) {
					return false
				}
				for i, a := range x.Common().Args {
					if a == v && i < len(callee.Params) {
						if !flowsOnlyToLogging(w, callee.Params[i], seen, depth+1) {
							return false
						}
					}
				}
				// and the callee's result, if it derives from the parameter
				if val, ok := r.(ssa.Value); ok && !flowsOnlyToLogging(w, val, seen, depth) {
					return false
				}
			}
		case *ssa.Return:
			// the value is returned: follow the callers' use of the result
			fn := x.Parent()
			for _, cs := range w.CallsToFn(fn) {
				if val, ok := cs.Instr.(ssa.Value); ok && !flowsOnlyToLogging(w, val, seen, depth+1) {
					return false
				}
			}
		default:
			return false
		}
	}
	return true
}

func baseAlloc(v ssa.Value) ssa.Value {
	for {
		switch x := v.(type) {
		case *ssa.IndexAddr:
			v = x.X
		case *ssa.FieldAddr:
			v = x.X
		default:
			return v
		}
	}
}

// pureAccumulation: the loop has no effects at all and every loop-carried value
// is updated by a commutative, associative operator (sums, counts, bit-ors).
func pureAccumulation(w *World, header *ssa.BasicBlock, blocks map[*ssa.BasicBlock]bool) string {
	for b := range blocks {
		for _, in := range b.Instrs {
			switch x := in.(type) {
			case *ssa.Store, *ssa.MapUpdate, *ssa.Send, *ssa.Go, *ssa.Defer, *ssa.Return, *ssa.Panic:
				return ""
			case ssa.CallInstruction:
				n := calleeName(x)
				if n != "builtin.len" && n != "builtin.cap" {
					return ""
				}
			}
		}
	}
	n := 0
	for _, in := range header.Instrs {
		phi, ok := in.(*ssa.Phi)
		if !ok {
			continue
		}
		for i, e := range phi.Edges {
			if !blocks[header.Preds[i]] {
				continue // initial value
			}
			if e == ssa.Value(phi) {
				continue
			}
			bo, ok := e.(*ssa.BinOp)
			if !ok {
				return ""
			}
			switch bo.Op {
			case token.ADD, token.OR, token.AND, token.XOR, token.MUL:
			default:
				return ""
			}
			if !reachesPhi(bo, phi, map[ssa.Value]bool{}) {
				return ""
			}
			n++
		}
	}
	if n == 0 {
		return ""
	}
	return "the loop only accumulates with commutative operators (no stores, calls or exits)"
}

func reachesPhi(v ssa.Value, phi *ssa.Phi, seen map[ssa.Value]bool) bool {
	if v == ssa.Value(phi) {
		return true
	}
	if seen[v] {
		return false
	}
	seen[v] = true
	switch x := v.(type) {
	case *ssa.BinOp:
		switch x.Op {
		case token.ADD, token.OR, token.AND, token.XOR, token.MUL:
			return reachesPhi(x.X, phi, seen) || reachesPhi(x.Y, phi, seen)
		}
	case *ssa.Phi:
		for _, e := range x.Edges {
			if reachesPhi(e, phi, seen) {
				return true
			}
		}
	}
	return false
}

// collectThenSort: the loop only appends to one slice which is sorted right after the loop.
func collectThenSort(w *World, rng *ssa.Range, blocks map[*ssa.BasicBlock]bool) string {
	var appendCall *ssa.Call
	for b := range blocks {
		for _, in := range b.Instrs {
			switch x := in.(type) {
			case *ssa.MapUpdate, *ssa.Store, *ssa.Send, *ssa.Return, *ssa.Panic, *ssa.Go, *ssa.Defer:
				_ = x
				// stores into the varargs array of append are fine
				if st, ok := in.(*ssa.Store); ok {
					if ia, ok := st.Addr.(*ssa.IndexAddr); ok {
						if al, ok := ia.X.(*ssa.Alloc); ok && al.Comment == "varargs" {
							continue
						}
					}
					if call, ok := st.Val.(*ssa.Call); ok && calleeName(call) == "builtin.append" {
						if _, ok := st.Addr.(*ssa.Alloc); ok {
							continue // slice variable kept in memory
						}
					}
				}
				return ""
			case *ssa.Call:
				n := calleeName(x)
				if n == "builtin.append" {
					if appendCall != nil {
						return ""
					}
					appendCall = x
				} else if strings.HasPrefix(n, "builtin.") {
					if n == "builtin.delete" {
						return ""
					}
				} else if callee := calleeFunc(x); callee != nil && w.isModuleFn(callee) {
					if !isPureFn(w, callee) {
						return ""
					}
				} else if !pureExternal(n) {
					return ""
				}
			}
		}
	}
	if appendCall == nil {
		return ""
	}
	isSorter := func(u ssa.Instruction) bool {
		if ci, ok := u.(ssa.CallInstruction); ok {
			switch calleeName(ci) {
			case "sort.Strings", "sort.Ints", "slices.Sort", "sort.Slice", "sort.SliceStable", "slices.SortFunc", "slices.SortStableFunc", "sort.Sort", "sort.Stable":
				return true
			}
		}
		return false
	}
	isLen := func(u ssa.Instruction) bool {
		ci, ok := u.(ssa.CallInstruction)
		return ok && (calleeName(ci) == "builtin.len" || calleeName(ci) == "builtin.cap")
	}
	var sorter ssa.Instruction
	// the appended slice's loop phi, and its use after the loop
	var phi *ssa.Phi
	var cell *ssa.Alloc
	for _, r := range *appendCall.Referrers() {
		if p, ok := r.(*ssa.Phi); ok && blocks[p.Block()] {
			phi = p
		}
		if st, ok := r.(*ssa.Store); ok && blocks[st.Block()] {
			cell, _ = st.Addr.(*ssa.Alloc)
		}
	}
	switch {
	case phi != nil:
		// all uses of phi outside the loop: a sort call must dominate the others (len/cap aside)
		var uses []ssa.Instruction
		for _, r := range *phi.Referrers() {
			if !blocks[r.Block()] {
				uses = append(uses, r)
			}
		}
		for _, u := range uses {
			if isSorter(u) {
				sorter = u
			}
		}
		if sorter == nil {
			return ""
		}
		for _, u := range uses {
			if isLen(u) {
				continue // the number of elements does not depend on their order
			}
			if u != sorter && !dominatesInstr(sorter, u) {
				return ""
			}
		}
	case cell != nil:
		// the slice variable lives in memory (captured by a closure): every load
		// outside the loop, and every capture, must come after a sort of its value
		var outside []ssa.Instruction
		for _, r := range *cell.Referrers() {
			if blocks[r.Block()] {
				if st, ok := r.(*ssa.Store); ok && st.Val != ssa.Value(appendCall) {
					return ""
				}
				continue
			}
			outside = append(outside, r)
		}
		for _, r := range outside {
			if ld, ok := r.(*ssa.UnOp); ok {
				for _, u := range *ld.Referrers() {
					if isSorter(u) && (sorter == nil || dominatesInstr(u, sorter)) {
						sorter = u
					}
				}
			}
		}
		if sorter == nil {
			return ""
		}
		for _, r := range outside {
			switch x := r.(type) {
			case *ssa.UnOp:
				for _, u := range *x.Referrers() {
					if u == sorter || isLen(u) {
						continue
					}
					if !dominatesInstr(sorter, u) {
						return ""
					}
				}
			case *ssa.Store:
				if r.Block() != cell.Block() && !dominatesInstr(sorter, r) {
					return ""
				}
			default:
				if !dominatesInstr(sorter, r) {
					return ""
				}
			}
		}
	default:
		return ""
	}
	return "keys collected into a slice that is sorted (" + calleeName(sorter.(ssa.CallInstruction)) + ") before any other use"
}

// detSites enumerates D1/D2/D3 candidates in the given functions.
func detSites(w *World, fns map[*ssa.Function]bool) []detSite {
	var out []detSite
	var list []*ssa.Function
	for f := range fns {
		list = append(list, f)
	}
	sort.Slice(list, func(i, j int) bool { return w.FuncName(list[i]) < w.FuncName(list[j]) })
	for _, fn := range list {
		for _, b := range fn.Blocks {
			for _, in := range b.Instrs {
				switch x := in.(type) {
				case *ssa.Go:
					out = append(out, detSite{Kind: "D3", Fn: fn, Instr: in, What: "go statement"})
				case *ssa.Select:
					out = append(out, detSite{Kind: "D3", Fn: fn, Instr: in, What: "select"})
				case *ssa.Range:
					if !isMapType(x.X.Type()) {
						continue
					}
					// find the loop: the Next instruction's block is the header
					var header *ssa.BasicBlock
					for _, r := range *x.Referrers() {
						if nx, ok := r.(*ssa.Next); ok {
							header = nx.Block()
						}
					}
					s := detSite{Kind: "D2", Fn: fn, Instr: in}
					desc := valueDesc(x.X)
					if header != nil {
						blocks := loopBlocks(header)
						s.Proved = collectThenSort(w, x, blocks)
						if s.Proved == "" {
							s.Proved = pureAccumulation(w, header, blocks)
						}
						s.What = "range " + desc + " {" + effectFingerprint(w, blocks) + "}"
					} else {
						s.What = "range " + desc
					}
					out = append(out, s)
				case ssa.CallInstruction:
					n := calleeName(x)
					if strings.HasSuffix(n, ".init") {
						continue // package initialisation of an import
					}
					if src := d1Source(n); src != "" {
						s := detSite{Kind: "D1", Fn: fn, Instr: in, What: n + " (" + src + ")"}
						if v, ok := in.(ssa.Value); ok && src == "wall clock" && flowsOnlyToLogging(w, v, map[ssa.Value]bool{}, 0) {
							s.Proved = "the value only ever reaches log.Print* (debug output)"
						}
						out = append(out, s)
						continue
					}
					if n == "(*golang.org/x/tools/go/ssa.Program).AllPackages" || n == "(reflect.Value).MapKeys" {
						s := detSite{Kind: "D2", Fn: fn, Instr: in, What: n + " (slice in map order)"}
						if v, ok := in.(ssa.Value); ok && v.Referrers() != nil {
							// sorted in place before any other use?
							var sorter ssa.Instruction
							for _, r := range *v.Referrers() {
								if ci, ok := r.(ssa.CallInstruction); ok {
									switch calleeName(ci) {
									case "slices.SortFunc", "slices.SortStableFunc", "sort.Slice", "sort.SliceStable", "slices.Sort":
										sorter = r
									}
								}
							}
							if sorter != nil {
								ok := true
								for _, r := range *v.Referrers() {
									if r != sorter && !dominatesInstr(sorter, r) {
										ok = false
									}
								}
								if ok {
									s.Proved = "sorted in place (" + calleeName(sorter.(ssa.CallInstruction)) + ") before any other use"
									s.What += " via " + calleeName(sorter.(ssa.CallInstruction))
								}
							}
						}
						out = append(out, s)
						continue
					}
					switch n {
					case "maps.Keys", "maps.Values", "maps.All", "(reflect.Value).MapRange", "(reflect.Value).MapKeys", "(*sync.Map).Range":
						s := detSite{Kind: "D2", Fn: fn, Instr: in, What: n + " of " + valueDesc(x.Common().Args[0])}
						if v, ok := in.(ssa.Value); ok && v.Referrers() != nil {
							refs := *v.Referrers()
							sortedAll := len(refs) > 0
							for _, r := range refs {
								ci, ok := r.(ssa.CallInstruction)
								if !ok {
									sortedAll = false
									continue
								}
								switch calleeName(ci) {
								case "slices.Sorted":
									s.Proved = "iterator consumed by slices.Sorted (total order)"
								case "slices.SortedFunc", "slices.SortedStableFunc":
									s.What += " via " + calleeName(ci)
									sortedAll = false // comparator may not be total: reviewed table
								default:
									sortedAll = false
								}
							}
							if !sortedAll {
								s.Proved = ""
							}
						}
						out = append(out, s)
					}
				}
			}
		}
	}
	return out
}

func (s detSite) key(w *World) string {
	return w.FuncName(s.Fn) + ": " + s.What
}

// Reviewed table: sites that are harmless for a reason the classifier cannot
// prove. Keyed by function + normalised description (ranged expression and the
// effect fingerprint of the loop body), never by line.
type reviewedSite struct{ key, reason string }

func reviewedMap(entries []reviewedSite) map[string]string {
	m := map[string]string{}
	for _, e := range entries {
		m[e.key] = e.reason
	}
	return m
}
