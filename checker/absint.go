package main

import (
	"fmt"
	"go/constant"
	"go/token"
	"go/types"

	"golang.org/x/tools/go/ssa"
)

// E6 absint — an interpreter for the SSA of the name hash function.
//
// It executes hashWithCustomSalt (and the byte helpers it calls) on an
// abstract input: the hash sum is opaque, the base64 output buffer is two
// cells — cell 0 holds one concrete byte, "rest" holds the *set* of bytes any
// later position may hold — and the two predicates on the original name are
// oracles fixed per scenario. Loops over the buffer are summarised pointwise:
// the body is executed once for every byte a cell may hold, with the induction
// variable symbolic; any access that is not at the induction variable, or any
// use of the induction variable other than indexing the buffer, makes the
// scenario undecided (never a pass).

type avKind int

const (
	avInt      avKind = iota // integers and bytes (I, with Go wraparound per type)
	avBool                   // B
	avOpaque                 // values the scenario does not model (hasher, salt, seed...)
	avSumSlice               // the hash sum (or a slice of it): arbitrary bytes, Len known if >= 0
	avBufSlice               // slice of the name buffer [Lo:Hi]
	avCellPtr                // &buf[Idx]; Idx == symIndex for the loop induction variable
	avSymIdx                 // the induction variable of a summarised loop
	avSymNext                // induction variable + 1 (loop post statement)
	avName                   // the original name parameter
	avString                 // result: string(buf[Lo:Hi])
	avFunc                   // a function value
	avEncoding               // the base64 encoding
)

const symIndex = -1

type aval struct {
	K      avKind
	I      int64
	B      bool
	Lo, Hi int64
	Fn     *ssa.Function
}

// envT is a layered environment: loop bodies write into a small child layer.
type envT struct {
	m  map[ssa.Value]aval
	up *envT
}

func newEnv(up *envT) *envT { return &envT{m: map[ssa.Value]aval{}, up: up} }

func (e *envT) get(v ssa.Value) (aval, bool) {
	for x := e; x != nil; x = x.up {
		if a, ok := x.m[v]; ok {
			return a, true
		}
	}
	return aval{}, false
}

func (e *envT) set(v ssa.Value, a aval) { e.m[v] = a }

type byteSet [256]bool

func (s *byteSet) count() int {
	n := 0
	for _, b := range s {
		if b {
			n++
		}
	}
	return n
}

type hashScenario struct {
	First      byte // symbol in cell 0 after Encode
	LenByte    byte // the byte of the hash sum that picks the length
	IsIdent    bool
	IsExported bool
}

type hashResult struct {
	Len   int64
	Cell0 byte
	Rest  byteSet
}

type interpErr struct{ msg string }

func (e interpErr) Error() string { return e.msg }

type hashInterp struct {
	w        *World
	fn       *ssa.Function
	alphabet []byte
	bufLen   int64 // len(b64NameBuffer)
	bufGlob  *ssa.Global
	steps    int
	// per-run state
	sc    hashScenario
	cell0 byte
	rest  byteSet
	// loop body mode
	inBody  bool
	bodyX   byte // value of buf[i]
	bodySet bool // the body stored to buf[i]
	encoded bool
	// facts collected across runs
	encodeSrcLen int64
	sumIdxRead   int64 // which byte of the hash sum is read as a scalar (-1: none yet)
	loopBounds   []int64
}

func (h *hashInterp) fail(format string, args ...any) {
	panic(interpErr{fmt.Sprintf(format, args...)})
}

// run executes the function for one scenario.
func (h *hashInterp) run(sc hashScenario) (res hashResult, err error) {
	defer func() {
		if r := recover(); r != nil {
			if ie, ok := r.(interpErr); ok {
				err = ie
				return
			}
			panic(r)
		}
	}()
	h.sc = sc
	h.sumIdxRead = -1
	h.loopBounds = nil
	h.encoded = false
	h.inBody = false
	h.rest = byteSet{}
	env := newEnv(nil)
	for _, p := range h.fn.Params {
		if types.Identical(p.Type(), types.Typ[types.String]) {
			env.set(p, aval{K: avName})
		} else {
			env.set(p, aval{K: avOpaque})
		}
	}
	v := h.exec(h.fn, env, h.fn.Blocks[0], nil, nil)
	if v.K != avString {
		h.fail("the function does not return string(buffer[:n])")
	}
	if v.Lo != 0 {
		h.fail("the result does not start at the first buffer cell")
	}
	res.Len = v.Hi - v.Lo
	for _, b := range h.loopBounds {
		if b < res.Len {
			h.fail("a fix-up loop over the buffer visits %d cells but the name has %d: the last cells keep raw base64 symbols", b, res.Len)
		}
	}
	res.Cell0 = h.cell0
	res.Rest = h.rest
	return res, nil
}

func (h *hashInterp) wrap(t types.Type, x int64) int64 {
	b, ok := t.Underlying().(*types.Basic)
	if !ok {
		return x
	}
	switch b.Kind() {
	case types.Uint8:
		return int64(uint8(x))
	case types.Int8:
		return int64(int8(x))
	case types.Uint16:
		return int64(uint16(x))
	case types.Int16:
		return int64(int16(x))
	case types.Uint32:
		return int64(uint32(x))
	case types.Int32:
		return int64(int32(x))
	}
	return x
}

func (h *hashInterp) val(env *envT, v ssa.Value) aval {
	switch x := v.(type) {
	case *ssa.Const:
		if x.Value == nil {
			return aval{K: avOpaque}
		}
		switch x.Value.Kind() {
		case constant.Int:
			n, _ := constant.Int64Val(x.Value)
			return aval{K: avInt, I: n}
		case constant.Bool:
			return aval{K: avBool, B: constant.BoolVal(x.Value)}
		}
		return aval{K: avOpaque}
	case *ssa.Global:
		if x == h.bufGlob {
			return aval{K: avBufSlice, Lo: 0, Hi: h.bufLen} // pointer to the array
		}
		return aval{K: avOpaque}
	case *ssa.Function:
		return aval{K: avFunc, Fn: x}
	}
	if a, ok := env.get(v); ok {
		return a
	}
	h.fail("value %s (%T) used before it is defined in the interpreter", v.Name(), v)
	return aval{}
}

// exec runs from block b until a Return; in loop-body mode it stops when
// control returns to stopAt (the loop header) and returns avOpaque.
func (h *hashInterp) exec(fn *ssa.Function, env *envT, b *ssa.BasicBlock, prev *ssa.BasicBlock, stopAt *ssa.BasicBlock) aval {
	for {
		if stopAt != nil && b == stopAt {
			return aval{K: avOpaque}
		}
		// summarise loops over the buffer
		if !h.inBody && fn == h.fn && prev != nil && isLoopHeader(b) && !b.Dominates(prev) {
			next := h.summariseLoop(fn, env, b, prev)
			prev, b = b, next
			continue
		}
		if h.inBody && isLoopHeader(b) && b != stopAt {
			h.fail("nested loop inside a loop over the name buffer")
		}
		var term ssa.Instruction
		for _, in := range b.Instrs {
			h.steps++
			if h.steps > 200_000_000 {
				h.fail("step limit exceeded")
			}
			switch x := in.(type) {
			case *ssa.Phi:
				found := false
				for i, p := range b.Preds {
					if p == prev {
						env.set(x, h.val(env, x.Edges[i]))
						found = true
					}
				}
				if !found {
					h.fail("phi without matching predecessor")
				}
			case *ssa.DebugRef:
			case *ssa.If, *ssa.Jump, *ssa.Return, *ssa.Panic:
				term = in
			default:
				h.step(fn, env, in)
			}
		}
		switch t := term.(type) {
		case *ssa.Jump:
			prev, b = b, b.Succs[0]
		case *ssa.If:
			c := h.val(env, t.Cond)
			if c.K == avSymIdx {
				h.fail("branch on the induction variable")
			}
			if c.K != avBool {
				h.fail("branch on a value the interpreter does not model (%s)", t.Cond.Name())
			}
			if c.B {
				prev, b = b, b.Succs[0]
			} else {
				prev, b = b, b.Succs[1]
			}
		case *ssa.Return:
			if h.inBody && fn == h.fn {
				h.fail("return inside a loop over the name buffer")
			}
			if len(t.Results) != 1 {
				h.fail("unexpected result count")
			}
			return h.val(env, t.Results[0])
		case *ssa.Panic:
			h.fail("panic reached on a path with a non-empty salt and name (%s)", h.w.Pos(t.Pos()))
		default:
			h.fail("block without terminator")
		}
	}
}

func isLoopHeader(b *ssa.BasicBlock) bool {
	for _, p := range b.Preds {
		if b.Dominates(p) {
			return true
		}
	}
	return false
}

// summariseLoop handles "for i := range buf[:n]" / "for i := 0; i < len(buf); i++".
func (h *hashInterp) summariseLoop(fn *ssa.Function, env *envT, header, prev *ssa.BasicBlock) *ssa.BasicBlock {
	iff := ifOf(header)
	if iff == nil {
		h.fail("loop header without a condition")
	}
	cmp, ok := iff.Cond.(*ssa.BinOp)
	if !ok || cmp.Op != token.LSS {
		h.fail("loop condition is not i < n")
	}
	// the bound must be len(buffer slice) and cover the whole result
	bound := h.val(env, cmp.Y)
	if bound.K != avInt {
		h.fail("loop bound is not a known length")
	}
	// find the induction phi: the phi of the header that feeds cmp.X
	var ind *ssa.Phi
	for _, in := range header.Instrs {
		if p, ok := in.(*ssa.Phi); ok {
			ind = p
			break
		}
	}
	if ind == nil {
		h.fail("loop without induction variable")
	}
	// evaluate header instructions with symbolic induction variable
	runBody := func(x byte) (byte, bool) {
		benv := newEnv(env)
		for _, in := range header.Instrs {
			switch y := in.(type) {
			case *ssa.Phi:
				if y == ind {
					benv.set(y, aval{K: avSymIdx})
				} else {
					h.fail("loop carries a second variable (%s)", y.Name())
				}
			case *ssa.BinOp:
				// i+1 (rotated rangeindex form) or the comparison
				a := h.val(benv, y.X)
				if a.K == avSymIdx && (y.Op == token.ADD || y.Op == token.LSS) {
					if y.Op == token.ADD {
						benv.set(y, aval{K: avSymIdx})
					} else {
						benv.set(y, aval{K: avBool, B: true})
					}
				} else {
					h.fail("unsupported instruction in loop header")
				}
			case *ssa.If, *ssa.DebugRef:
			default:
				h.fail("unsupported instruction %T in loop header", in)
			}
		}
		h.inBody, h.bodyX, h.bodySet = true, x, false
		h.exec(fn, benv, header.Succs[0], header, header)
		h.inBody = false
		return h.bodyX, h.bodySet
	}
	// initial value of the induction variable must make the loop start at cell 0
	// (rangeindex: -1 then +1; classic: 0)
	var start ssa.Value
	for i, p := range header.Preds {
		if p == prev {
			start = ind.Edges[i]
		}
	}
	rotated := false
	for _, in := range header.Instrs {
		if bo, ok := in.(*ssa.BinOp); ok && bo.Op == token.ADD {
			rotated = true
		}
	}
	if n, ok := constInt(start); !ok || (rotated && n != -1) || (!rotated && n != 0) {
		h.fail("loop over the buffer does not start at its first cell")
	}
	h.loopBounds = append(h.loopBounds, bound.I)
	// cell 0
	h.cell0, _ = runBody(h.cell0)
	var nrest byteSet
	for x := 0; x < 256; x++ {
		if h.rest[x] {
			y, _ := runBody(byte(x))
			nrest[y] = true
		}
	}
	h.rest = nrest
	return header.Succs[1]
}

func (h *hashInterp) step(fn *ssa.Function, env *envT, in ssa.Instruction) {
	switch x := in.(type) {
	case *ssa.BinOp:
		a, b := h.val(env, x.X), h.val(env, x.Y)
		if a.K == avName || b.K == avName {
			// name == "" : false on the modelled paths
			if x.Op == token.EQL {
				env.set(x, aval{K: avBool, B: false})
				return
			}
			if x.Op == token.NEQ {
				env.set(x, aval{K: avBool, B: true})
				return
			}
		}
		if a.K == avSymIdx && x.Op == token.ADD && b.K == avInt && b.I == 1 {
			env.set(x, aval{K: avSymNext}) // i+1 of a classic for loop: may only flow back into the header
			return
		}
		if a.K == avSymIdx || b.K == avSymIdx || a.K == avSymNext || b.K == avSymNext {
			h.fail("arithmetic on the induction variable inside the loop body (%s)", h.w.Pos(x.Pos()))
		}
		if a.K == avBool && b.K == avBool {
			switch x.Op {
			case token.EQL:
				env.set(x, aval{K: avBool, B: a.B == b.B})
			case token.NEQ:
				env.set(x, aval{K: avBool, B: a.B != b.B})
			default:
				h.fail("unsupported bool operator %s", x.Op)
			}
			return
		}
		if a.K != avInt || b.K != avInt {
			h.fail("operator %s on values the interpreter does not model (%s)", x.Op, h.w.Pos(x.Pos()))
		}
		var r int64
		switch x.Op {
		case token.ADD:
			r = a.I + b.I
		case token.SUB:
			r = a.I - b.I
		case token.MUL:
			r = a.I * b.I
		case token.QUO:
			if b.I == 0 {
				h.fail("division by zero")
			}
			r = a.I / b.I
		case token.REM:
			if b.I == 0 {
				h.fail("division by zero")
			}
			r = a.I % b.I
		case token.AND:
			r = a.I & b.I
		case token.OR:
			r = a.I | b.I
		case token.XOR:
			r = a.I ^ b.I
		case token.SHL:
			r = a.I << uint(b.I)
		case token.SHR:
			r = a.I >> uint(b.I)
		case token.AND_NOT:
			r = a.I &^ b.I
		case token.EQL:
			env.set(x, aval{K: avBool, B: a.I == b.I})
			return
		case token.NEQ:
			env.set(x, aval{K: avBool, B: a.I != b.I})
			return
		case token.LSS:
			env.set(x, aval{K: avBool, B: a.I < b.I})
			return
		case token.LEQ:
			env.set(x, aval{K: avBool, B: a.I <= b.I})
			return
		case token.GTR:
			env.set(x, aval{K: avBool, B: a.I > b.I})
			return
		case token.GEQ:
			env.set(x, aval{K: avBool, B: a.I >= b.I})
			return
		default:
			h.fail("unsupported operator %s", x.Op)
		}
		env.set(x, aval{K: avInt, I: h.wrap(x.Type(), r)})
	case *ssa.UnOp:
		a := h.val(env, x.X)
		switch x.Op {
		case token.MUL: // load
			switch a.K {
			case avCellPtr:
				env.set(x, aval{K: avInt, I: int64(h.load(a.I))})
			case avOpaque:
				// loads of scratch globals, the hasher, the seed...
				if g, ok := x.X.(*ssa.Global); ok && g.Name() == "nameBase64" {
					env.set(x, aval{K: avEncoding})
				} else {
					env.set(x, aval{K: avOpaque})
				}
			case avSumSlice:
				// a byte of the hash sum: the scenario's length byte (the only one read)
				if h.sumIdxRead >= 0 && h.sumIdxRead != a.Lo {
					h.fail("two different bytes of the hash sum are read as scalars (%d and %d): the scenario models one", h.sumIdxRead, a.Lo)
				}
				h.sumIdxRead = a.Lo
				env.set(x, aval{K: avInt, I: int64(h.sc.LenByte)})
			default:
				h.fail("load through an unmodelled pointer (%s)", h.w.Pos(x.Pos()))
			}
		case token.NOT:
			if a.K != avBool {
				h.fail("! on non-bool")
			}
			env.set(x, aval{K: avBool, B: !a.B})
		case token.SUB:
			if a.K != avInt {
				h.fail("- on non-int")
			}
			env.set(x, aval{K: avInt, I: h.wrap(x.Type(), -a.I)})
		case token.XOR:
			if a.K != avInt {
				h.fail("^ on non-int")
			}
			env.set(x, aval{K: avInt, I: h.wrap(x.Type(), ^a.I)})
		default:
			h.fail("unsupported unary operator %s", x.Op)
		}
	case *ssa.Store:
		p := h.val(env, x.Addr)
		if p.K != avCellPtr {
			h.fail("store through an unmodelled pointer (%s): the function has a side effect outside its scratch buffer", h.w.Pos(x.Pos()))
		}
		v := h.val(env, x.Val)
		if v.K != avInt {
			h.fail("store of a non-byte value into the buffer")
		}
		h.store(p.I, byte(v.I))
	case *ssa.IndexAddr:
		base, idx := h.val(env, x.X), h.val(env, x.Index)
		switch base.K {
		case avBufSlice:
			switch idx.K {
			case avSymIdx:
				if !h.inBody {
					h.fail("induction variable outside its loop")
				}
				env.set(x, aval{K: avCellPtr, I: symIndex})
			case avInt:
				if idx.I < 0 || base.Lo+idx.I >= base.Hi {
					h.fail("index %d out of range [0,%d) of the name buffer (%s)", idx.I, base.Hi-base.Lo, h.w.Pos(x.Pos()))
				}
				env.set(x, aval{K: avCellPtr, I: base.Lo + idx.I})
			default:
				h.fail("buffer index the interpreter does not model")
			}
		case avSumSlice:
			if idx.K != avInt {
				h.fail("hash sum indexed by a non-constant")
			}
			if base.Hi >= 0 && idx.I >= base.Hi {
				h.fail("index %d out of range of the hash sum", idx.I)
			}
			env.set(x, aval{K: avSumSlice, Lo: idx.I, Hi: idx.I + 1})
		default:
			env.set(x, aval{K: avOpaque})
		}
	case *ssa.Slice:
		base := h.val(env, x.X)
		lo, hi := int64(0), int64(-2)
		if x.Low != nil {
			v := h.val(env, x.Low)
			if v.K != avInt {
				h.fail("slice bound is not a known integer")
			}
			lo = v.I
		}
		if x.High != nil {
			v := h.val(env, x.High)
			if v.K != avInt {
				h.fail("slice bound is not a known integer")
			}
			hi = v.I
		}
		switch base.K {
		case avBufSlice:
			if hi == -2 {
				hi = base.Hi - base.Lo
			}
			if lo < 0 || hi < lo || base.Lo+hi > h.bufLen {
				h.fail("slice [%d:%d] out of the %d-byte name buffer: run-time panic (%s)", lo, hi, h.bufLen, h.w.Pos(x.Pos()))
			}
			env.set(x, aval{K: avBufSlice, Lo: base.Lo + lo, Hi: base.Lo + hi})
		case avSumSlice:
			if hi == -2 {
				hi = base.Hi
			}
			if hi > 32 {
				h.fail("slice of the hash sum beyond sha256.Size")
			}
			env.set(x, aval{K: avSumSlice, Lo: lo, Hi: hi})
		default:
			env.set(x, aval{K: avOpaque})
		}
	case *ssa.FieldAddr, *ssa.Field, *ssa.ChangeInterface, *ssa.MakeInterface, *ssa.ChangeType:
		env.set(x.(ssa.Value), aval{K: avOpaque})
	case *ssa.Convert:
		a := h.val(env, x.X)
		switch a.K {
		case avInt:
			env.set(x, aval{K: avInt, I: h.wrap(x.Type(), a.I)})
		case avBufSlice:
			if types.Identical(x.Type().Underlying(), types.Typ[types.String]) {
				env.set(x, aval{K: avString, Lo: a.Lo, Hi: a.Hi})
			} else {
				h.fail("unsupported conversion of the buffer")
			}
		default:
			env.set(x, aval{K: avOpaque})
		}
	case *ssa.Call:
		env.set(x, h.call(fn, env, x))
	case *ssa.Extract:
		env.set(x, aval{K: avOpaque})
	case *ssa.Alloc, *ssa.MakeSlice:
		env.set(x.(ssa.Value), aval{K: avOpaque})
	default:
		h.fail("instruction %T not modelled (%s)", in, h.w.Pos(in.Pos()))
	}
}

func (h *hashInterp) load(idx int64) byte {
	if !h.encoded {
		h.fail("the name buffer is read before it is filled")
	}
	switch {
	case idx == symIndex:
		return h.bodyX
	case h.inBody:
		h.fail("inside the loop the buffer is read at a fixed position: positions are not independent")
	case idx == 0:
		return h.cell0
	}
	h.fail("read of buffer cell %d outside a loop over the buffer", idx)
	return 0
}

func (h *hashInterp) store(idx int64, v byte) {
	switch {
	case idx == symIndex:
		h.bodyX, h.bodySet = v, true
	case h.inBody:
		h.fail("inside the loop the buffer is written at a fixed position: positions are not independent")
	case idx == 0:
		h.cell0 = v
	default:
		h.fail("write of buffer cell %d outside a loop over the buffer", idx)
	}
}

func (h *hashInterp) call(fn *ssa.Function, env *envT, c *ssa.Call) aval {
	name := calleeName(c)
	cc := c.Common()
	switch name {
	case "builtin.len":
		a := h.val(env, cc.Args[0])
		switch a.K {
		case avBufSlice:
			return aval{K: avInt, I: a.Hi - a.Lo}
		case avSumSlice:
			if a.Hi < 0 {
				return aval{K: avInt, I: 32}
			}
			return aval{K: avInt, I: a.Hi - a.Lo}
		case avOpaque, avName:
			// len(salt): non-empty on the modelled paths
			return aval{K: avInt, I: 1}
		}
		h.fail("len of an unmodelled value")
	case "go/token.IsIdentifier":
		if h.val(env, cc.Args[0]).K != avName {
			h.fail("IsIdentifier applied to something other than the original name")
		}
		return aval{K: avBool, B: h.sc.IsIdent}
	case "go/token.IsExported":
		if h.val(env, cc.Args[0]).K != avName {
			h.fail("IsExported applied to something other than the original name")
		}
		return aval{K: avBool, B: h.sc.IsExported}
	case "(hash.Hash).Sum":
		return aval{K: avSumSlice, Lo: 0, Hi: -1}
	case "(hash.Hash).Reset", "(hash.Hash).Write", "(io.Writer).Write", "io.WriteString":
		return aval{K: avOpaque}
	case "(*encoding/base64.Encoding).Encode":
		if h.val(env, cc.Args[0]).K != avEncoding {
			h.fail("Encode on an encoding other than nameBase64")
		}
		dst, src := h.val(env, cc.Args[1]), h.val(env, cc.Args[2])
		if dst.K != avBufSlice || dst.Lo != 0 || dst.Hi != h.bufLen {
			h.fail("Encode does not write into the whole name buffer")
		}
		if src.K != avSumSlice || src.Hi < 0 {
			h.fail("Encode source is not a fixed-length prefix of the hash sum")
		}
		n := src.Hi - src.Lo
		h.encodeSrcLen = n
		encLen := (n*8 + 5) / 6 // no padding
		if encLen < h.bufLen {
			h.fail("base64 of %d hash bytes fills only %d of the %d buffer cells: the last cells keep bytes of an earlier name", n, encLen, h.bufLen)
		}
		if encLen > h.bufLen {
			h.fail("base64 of %d hash bytes needs %d cells, the buffer has %d: Encode panics", n, encLen, h.bufLen)
		}
		h.encoded = true
		h.cell0 = h.sc.First
		h.rest = byteSet{}
		for _, b := range h.alphabet {
			h.rest[b] = true
		}
		return aval{K: avOpaque}
	}
	// module helpers: interpret
	if callee := cc.StaticCallee(); callee != nil && h.w.isModuleFn(callee) && len(callee.Blocks) > 0 {
		cenv := newEnv(nil)
		for i, p := range callee.Params {
			a := h.val(env, cc.Args[i])
			if a.K != avInt && a.K != avBool {
				h.fail("helper %s called with an unmodelled argument", callee.Name())
			}
			cenv.set(p, a)
		}
		saved := h.inBody
		r := h.execHelper(callee, cenv)
		h.inBody = saved
		return r
	}
	h.fail("call to %s is not modelled: the function depends on something beyond salt, seed and name", name)
	return aval{}
}

// execHelper runs a pure byte helper (isDigit, toUpper, ...).
func (h *hashInterp) execHelper(fn *ssa.Function, env *envT) aval {
	b := fn.Blocks[0]
	var prev *ssa.BasicBlock
	for {
		var term ssa.Instruction
		for _, in := range b.Instrs {
			h.steps++
			switch x := in.(type) {
			case *ssa.Phi:
				for i, p := range b.Preds {
					if p == prev {
						env.set(x, h.val(env, x.Edges[i]))
					}
				}
			case *ssa.DebugRef:
			case *ssa.If, *ssa.Jump, *ssa.Return, *ssa.Panic:
				term = in
			case *ssa.BinOp, *ssa.UnOp, *ssa.Convert:
				if u, ok := x.(*ssa.UnOp); ok && u.Op == token.MUL {
					h.fail("helper %s reads memory", fn.Name())
				}
				h.step(fn, env, in)
			default:
				h.fail("helper %s is not a pure byte function (%T)", fn.Name(), in)
			}
		}
		switch t := term.(type) {
		case *ssa.Jump:
			prev, b = b, b.Succs[0]
		case *ssa.If:
			c := h.val(env, t.Cond)
			if c.K != avBool {
				h.fail("helper branches on a non-bool")
			}
			if c.B {
				prev, b = b, b.Succs[0]
			} else {
				prev, b = b, b.Succs[1]
			}
		case *ssa.Return:
			return h.val(env, t.Results[0])
		default:
			h.fail("helper %s panics or has no terminator", fn.Name())
		}
	}
}
