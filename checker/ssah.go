package main

import (
	"fmt"
	"go/ast"
	"go/constant"
	"go/importer"
	"go/parser"
	"go/token"
	"go/types"
	"sort"
	"strings"

	"golang.org/x/tools/go/ssa"
	"golang.org/x/tools/go/ssa/ssautil"
)

// ---------------------------------------------------------------------------
// callees

// calleeFunc returns the statically resolved callee of a call, following
// closures made in place (MakeClosure) but nothing dynamic.
func calleeFunc(call ssa.CallInstruction) *ssa.Function {
	return call.Common().StaticCallee()
}

// calleeName returns a stable, fully qualified name for the callee of a call:
// "os.RemoveAll", "(*github.com/rogpeppe/go-internal/cache.Cache).GetFile",
// "(io/fs.FileInfo).Size" for interface invokes, "builtin.append" for builtins,
// "" when the callee is a dynamic function value.
func calleeName(call ssa.CallInstruction) string {
	cc := call.Common()
	if cc.IsInvoke() {
		return cc.Method.FullName()
	}
	switch v := cc.Value.(type) {
	case *ssa.Builtin:
		return "builtin." + v.Name()
	}
	if fn := cc.StaticCallee(); fn != nil {
		return funcFullName(fn)
	}
	return ""
}

func funcFullName(fn *ssa.Function) string {
	if fn == nil {
		return ""
	}
	if o := fn.Origin(); o != nil {
		fn = o
	}
	if obj, ok := fn.Object().(*types.Func); ok && obj != nil {
		return obj.FullName()
	}
	if fn.Parent() != nil {
		return funcFullName(fn.Parent()) + "$" + strings.TrimPrefix(fn.Name(), fn.Parent().Name()+"$")
	}
	return fn.String()
}

// CallSite is a call instruction inside a module function.
type CallSite struct {
	Fn    *ssa.Function
	Instr ssa.CallInstruction
}

func (cs CallSite) Args() []ssa.Value { return cs.Instr.Common().Args }

// Arg returns the i-th declared argument (skipping the receiver for static
// method calls; invoke-mode calls keep the receiver in Value, not in Args).
func (cs CallSite) Arg(i int) ssa.Value {
	cc := cs.Instr.Common()
	off := 0
	if !cc.IsInvoke() {
		if sig := cc.Signature(); sig != nil && sig.Recv() != nil {
			off = 1
		}
	}
	if off+i < len(cc.Args) {
		return cc.Args[off+i]
	}
	return nil
}

// Recv returns the receiver value of a method call, or nil.
func (cs CallSite) Recv() ssa.Value {
	cc := cs.Instr.Common()
	if cc.IsInvoke() {
		return cc.Value
	}
	if sig := cc.Signature(); sig != nil && sig.Recv() != nil && len(cc.Args) > 0 {
		return cc.Args[0]
	}
	return nil
}

// forEachInstr visits every instruction of every module function.
func (w *World) forEachInstr(f func(fn *ssa.Function, in ssa.Instruction)) {
	for _, fn := range w.ModuleFuncs() {
		for _, b := range fn.Blocks {
			for _, in := range b.Instrs {
				f(fn, in)
			}
		}
	}
}

// CallsTo returns all call sites (call, go, defer) in module functions whose
// resolved callee name equals one of names, in a deterministic order.
func (w *World) CallsTo(names ...string) []CallSite {
	want := map[string]bool{}
	for _, n := range names {
		want[n] = true
	}
	var out []CallSite
	w.forEachInstr(func(fn *ssa.Function, in ssa.Instruction) {
		if ci, ok := in.(ssa.CallInstruction); ok {
			if want[calleeName(ci)] {
				out = append(out, CallSite{fn, ci})
			}
		}
	})
	return out
}

// CallsToFn returns all call sites of a module function.
func (w *World) CallsToFn(target *ssa.Function) []CallSite {
	var out []CallSite
	if target == nil {
		return nil
	}
	w.forEachInstr(func(fn *ssa.Function, in ssa.Instruction) {
		if ci, ok := in.(ssa.CallInstruction); ok {
			if cf := calleeFunc(ci); cf != nil && (cf == target || cf.Origin() == target) {
				out = append(out, CallSite{fn, ci})
			}
		}
	})
	return out
}

// FuncValueUses returns the places where fn is used as a value (not called):
// stored in a table, passed as an argument, bound as a method value.
func (w *World) FuncValueUses(target *ssa.Function) []ssa.Instruction {
	var out []ssa.Instruction
	w.forEachInstr(func(fn *ssa.Function, in ssa.Instruction) {
		for _, op := range in.Operands(nil) {
			if *op == ssa.Value(target) {
				if ci, ok := in.(ssa.CallInstruction); ok && ci.Common().Value == ssa.Value(target) {
					// it is the callee; but it might also be an argument
					isArg := false
					for _, a := range ci.Common().Args {
						if a == ssa.Value(target) {
							isArg = true
						}
					}
					if !isArg {
						continue
					}
				}
				out = append(out, in)
			}
		}
	})
	return out
}

// ---------------------------------------------------------------------------
// positions inside a function

func instrIndex(in ssa.Instruction) int {
	for i, x := range in.Block().Instrs {
		if x == in {
			return i
		}
	}
	return -1
}

// dominatesInstr reports whether a is executed before b on every path to b.
func dominatesInstr(a, b ssa.Instruction) bool {
	if a.Parent() != b.Parent() {
		return false
	}
	if a.Block() == b.Block() {
		return instrIndex(a) < instrIndex(b)
	}
	return a.Block().Dominates(b.Block())
}

// reachableAvoiding computes the blocks reachable from start without entering
// any block of avoid. start itself is included unless avoided.
func reachableAvoiding(start *ssa.BasicBlock, avoid map[*ssa.BasicBlock]bool) map[*ssa.BasicBlock]bool {
	seen := map[*ssa.BasicBlock]bool{}
	var walk func(b *ssa.BasicBlock)
	walk = func(b *ssa.BasicBlock) {
		if seen[b] || avoid[b] {
			return
		}
		seen[b] = true
		for _, s := range b.Succs {
			walk(s)
		}
	}
	walk(start)
	return seen
}

// pathAvoiding returns a block path from start to goal that avoids the given
// blocks, or nil if there is none. Used as the witness of a failed
// must-pass-through rule.
func pathAvoiding(start, goal *ssa.BasicBlock, avoid map[*ssa.BasicBlock]bool) []*ssa.BasicBlock {
	type item struct {
		b    *ssa.BasicBlock
		prev *item
	}
	if avoid[start] {
		return nil
	}
	seen := map[*ssa.BasicBlock]bool{start: true}
	queue := []*item{{start, nil}}
	for len(queue) > 0 {
		it := queue[0]
		queue = queue[1:]
		if it.b == goal {
			var path []*ssa.BasicBlock
			for x := it; x != nil; x = x.prev {
				path = append([]*ssa.BasicBlock{x.b}, path...)
			}
			return path
		}
		for _, s := range it.b.Succs {
			if !seen[s] && !avoid[s] {
				seen[s] = true
				queue = append(queue, &item{s, it})
			}
		}
	}
	return nil
}

func (w *World) pathString(path []*ssa.BasicBlock) string {
	var parts []string
	for _, b := range path {
		line := ""
		for _, in := range b.Instrs {
			if in.Pos().IsValid() {
				line = w.Pos(in.Pos())
				break
			}
		}
		c := b.Comment
		if c != "" {
			c = " " + c
		}
		parts = append(parts, fmt.Sprintf("b%d%s[%s]", b.Index, c, line))
	}
	return strings.Join(parts, " -> ")
}

// returnsOf lists the Return instructions of a function.
func returnsOf(fn *ssa.Function) []*ssa.Return {
	var out []*ssa.Return
	for _, b := range fn.Blocks {
		if len(b.Instrs) == 0 || b == fn.Recover {
			continue
		}
		if r, ok := b.Instrs[len(b.Instrs)-1].(*ssa.Return); ok {
			out = append(out, r)
		}
	}
	return out
}

// ---------------------------------------------------------------------------
// small value predicates

func isNilConst(v ssa.Value) bool {
	c, ok := v.(*ssa.Const)
	return ok && c.Value == nil
}

func constString(v ssa.Value) (string, bool) {
	c, ok := v.(*ssa.Const)
	if !ok || c.Value == nil || c.Value.Kind() != constant.String {
		return "", false
	}
	return constant.StringVal(c.Value), true
}

func constInt(v ssa.Value) (int64, bool) {
	c, ok := v.(*ssa.Const)
	if !ok || c.Value == nil || c.Value.Kind() != constant.Int {
		return 0, false
	}
	return c.Int64(), true
}

func constBool(v ssa.Value) (bool, bool) {
	c, ok := v.(*ssa.Const)
	if !ok || c.Value == nil || c.Value.Kind() != constant.Bool {
		return false, false
	}
	return constant.BoolVal(c.Value), true
}

var errorType = types.Universe.Lookup("error").Type()

func isErrorType(t types.Type) bool { return types.Identical(t, errorType) }

// nilTest recognises "v == nil" / "v != nil" and returns the tested value and
// whether the *true* outcome means v is non-nil.
func nilTest(cond ssa.Value) (v ssa.Value, trueMeansNonNil bool, ok bool) {
	b, isBin := cond.(*ssa.BinOp)
	if !isBin || (b.Op != token.EQL && b.Op != token.NEQ) {
		return nil, false, false
	}
	switch {
	case isNilConst(b.Y):
		v = b.X
	case isNilConst(b.X):
		v = b.Y
	default:
		return nil, false, false
	}
	return v, b.Op == token.NEQ, true
}

// ifOf returns the If terminating block b, or nil.
func ifOf(b *ssa.BasicBlock) *ssa.If {
	if len(b.Instrs) == 0 {
		return nil
	}
	i, _ := b.Instrs[len(b.Instrs)-1].(*ssa.If)
	return i
}

// unwrap strips value-preserving conversions.
func unwrap(v ssa.Value) ssa.Value {
	for {
		switch x := v.(type) {
		case *ssa.ChangeType:
			v = x.X
		case *ssa.MakeInterface:
			v = x.X
		case *ssa.ChangeInterface:
			v = x.X
		default:
			return v
		}
	}
}

// ---------------------------------------------------------------------------
// Edge conditions: under which (cond value, polarity) pairs is a block entered?
//
// edgeFacts(b) returns the set of (value, outcome) facts that hold on *every*
// path from the function entry to b, considering only If edges whose target is
// dominated by that edge (single-predecessor targets, closed under dominance),
// and decomposing short-circuit && / || the way go/ssa lowers them.

type condFact struct {
	V       ssa.Value
	Outcome bool
}

func edgeFacts(b *ssa.BasicBlock) []condFact {
	var out []condFact
	// walk up the dominator tree
	for cur := b; cur != nil; cur = cur.Idom() {
		idom := cur.Idom()
		if idom == nil {
			break
		}
		// the fact applies if idom ends in If and cur is reachable from exactly
		// one of its two successors exclusively
		iff := ifOf(idom)
		if iff == nil {
			continue
		}
		t, f := idom.Succs[0], idom.Succs[1]
		if t == f {
			continue
		}
		// cur must be dominated by the edge idom->t (resp. f): true when cur==t
		// and t has idom as its only predecessor.
		if cur == t && len(t.Preds) == 1 {
			out = append(out, condFact{iff.Cond, true})
		} else if cur == f && len(f.Preds) == 1 {
			out = append(out, condFact{iff.Cond, false})
		}
	}
	return out
}

// ---------------------------------------------------------------------------
// names for keys

func valueDesc(v ssa.Value) string {
	switch x := v.(type) {
	case nil:
		return "<nil>"
	case *ssa.Const:
		if x.Value == nil {
			return "nil"
		}
		return x.Value.ExactString()
	case *ssa.Global:
		return "global " + x.Name()
	case *ssa.Parameter:
		return "param " + x.Name()
	case *ssa.FreeVar:
		return "freevar " + x.Name()
	case *ssa.Function:
		return "func " + funcFullName(x)
	case *ssa.Call:
		return "call " + calleeName(x)
	case *ssa.FieldAddr:
		return valueDesc(x.X) + "." + fieldName(x.X.Type(), x.Field)
	case *ssa.Field:
		return valueDesc(x.X) + "." + fieldName(x.X.Type(), x.Field)
	case *ssa.UnOp:
		if x.Op == token.MUL {
			return valueDesc(x.X)
		}
		return x.Op.String() + valueDesc(x.X)
	case *ssa.Extract:
		return fmt.Sprintf("%s#%d", valueDesc(x.Tuple), x.Index)
	case *ssa.Alloc:
		if x.Comment != "" {
			return "local " + x.Comment
		}
		return "alloc"
	case *ssa.Lookup:
		return valueDesc(x.X) + "[...]"
	case *ssa.IndexAddr:
		return valueDesc(x.X) + "[i]"
	case *ssa.Index:
		return valueDesc(x.X) + "[i]"
	case *ssa.MakeMap:
		return "new map"
	case *ssa.Phi:
		if x.Comment != "" {
			return "var " + x.Comment
		}
		return "phi"
	case *ssa.ChangeType:
		return valueDesc(x.X)
	case *ssa.Convert:
		return valueDesc(x.X)
	case *ssa.MakeInterface:
		return valueDesc(x.X)
	case *ssa.TypeAssert:
		return valueDesc(x.X)
	case *ssa.Slice:
		return valueDesc(x.X) + "[:]"
	}
	return fmt.Sprintf("%T", v)
}

func fieldName(t types.Type, i int) string {
	if p, ok := t.Underlying().(*types.Pointer); ok {
		t = p.Elem()
	}
	if s, ok := t.Underlying().(*types.Struct); ok && i < s.NumFields() {
		return s.Field(i).Name()
	}
	return fmt.Sprintf("f%d", i)
}

func sortedKeys[M ~map[string]V, V any](m M) []string {
	out := make([]string, 0, len(m))
	for k := range m {
		out = append(out, k)
	}
	sort.Strings(out)
	return out
}

// retResults resolves the operands of a return. In functions with defers
// go/ssa spills results into local slots ("*t0 = v; rundefers; t9 = *t0;
// return t9"); this maps each loaded slot back to the value stored in the
// same block, so rules see "return v".
func retResults(ret *ssa.Return) []ssa.Value {
	out := make([]ssa.Value, len(ret.Results))
	b := ret.Block()
	for i, r := range ret.Results {
		out[i] = r
		ld, ok := r.(*ssa.UnOp)
		if !ok || ld.Op != token.MUL || ld.Block() != b {
			continue
		}
		al, ok := ld.X.(*ssa.Alloc)
		if !ok {
			continue
		}
		for j := instrIndex(ld) - 1; j >= 0; j-- {
			if st, ok := b.Instrs[j].(*ssa.Store); ok && st.Addr == ssa.Value(al) {
				out[i] = st.Val
				break
			}
		}
	}
	return out
}

// ---------------------------------------------------------------------------
// path enumeration (small acyclic regions)

type cfgEdge struct {
	From *ssa.BasicBlock
	Succ int
}

// Cond returns the condition and outcome of taking this edge, or nil.
func (e cfgEdge) Cond() (ssa.Value, bool) {
	iff := ifOf(e.From)
	if iff == nil {
		return nil, false
	}
	return iff.Cond, e.Succ == 0
}

// enumPaths lists every simple path (no block visited twice) from start to
// goal as edge lists. ok is false if more than limit paths exist.
func enumPaths(start, goal *ssa.BasicBlock, limit int) (paths [][]cfgEdge, ok bool) {
	ok = true
	onPath := map[*ssa.BasicBlock]bool{}
	var cur []cfgEdge
	var walk func(b *ssa.BasicBlock)
	walk = func(b *ssa.BasicBlock) {
		if !ok {
			return
		}
		if b == goal {
			if len(paths) >= limit {
				ok = false
				return
			}
			paths = append(paths, append([]cfgEdge(nil), cur...))
			return
		}
		onPath[b] = true
		for i, s := range b.Succs {
			if onPath[s] {
				continue
			}
			cur = append(cur, cfgEdge{b, i})
			walk(s)
			cur = cur[:len(cur)-1]
		}
		onPath[b] = false
	}
	walk(start)
	return paths, ok
}

func (w *World) edgesString(path []cfgEdge) string {
	var parts []string
	for _, e := range path {
		cond, outcome := e.Cond()
		if cond == nil {
			continue
		}
		parts = append(parts, fmt.Sprintf("%s=%v@%s", condDesc(cond), outcome, w.Pos(e.From.Instrs[len(e.From.Instrs)-1].Pos())))
	}
	return strings.Join(parts, " ; ")
}

func condDesc(v ssa.Value) string {
	switch x := v.(type) {
	case *ssa.BinOp:
		return "(" + valueDesc(x.X) + " " + x.Op.String() + " " + valueDesc(x.Y) + ")"
	case *ssa.Call:
		return calleeName(x) + "(...)"
	}
	return valueDesc(v)
}

// closureFn returns the anonymous function behind a closure value: a
// MakeClosure, or the bare function when it captures nothing.
func closureFn(v ssa.Value) *ssa.Function {
	switch x := v.(type) {
	case *ssa.MakeClosure:
		fn, _ := x.Fn.(*ssa.Function)
		return fn
	case *ssa.Function:
		if x.Parent() != nil {
			return x
		}
	}
	return nil
}

// loopHeaderOf returns the innermost loop header whose body contains b: the
// nearest dominator of b that has a predecessor it dominates (a back edge)
// from which b is reachable... approximated as: nearest dominator with a back edge.
func loopHeaderOf(b *ssa.BasicBlock) *ssa.BasicBlock {
	for h := b; h != nil; h = h.Idom() {
		for _, p := range h.Preds {
			if h.Dominates(p) && (p == b || reachableAvoiding(b, map[*ssa.BasicBlock]bool{h: true})[p]) {
				return h
			}
		}
	}
	return nil
}

// buildSnippet type-checks and builds SSA for a tiny self-contained program
// (positive controls for rules whose expected match count on /repo is zero).
func buildSnippet(src, fnName string) (*ssa.Function, error) {
	fset := token.NewFileSet()
	f, err := parser.ParseFile(fset, "control.go", src, 0)
	if err != nil {
		return nil, err
	}
	pkg := types.NewPackage("p", "p")
	spkg, _, err := ssautil.BuildPackage(&types.Config{Importer: importer.Default()}, fset, pkg, []*ast.File{f}, ssa.SanityCheckFunctions)
	if err != nil {
		return nil, err
	}
	fn := spkg.Func(fnName)
	if fn == nil {
		return nil, fmt.Errorf("function %s not found in control", fnName)
	}
	return fn, nil
}
