package main

import (
	"fmt"
	"go/token"
	"sort"
	"strings"

	"golang.org/x/tools/go/ssa"
)

func init() {
	register(&propCheck{
		id: "C12",
		explain: "Decides what the salt of every obfuscated name may depend on, by specialising the salt functions under flagSeed.present() = true / false (boolean constant propagation on SSA) and taking backward dependence slices of the salt handed to hashWithCustomSalt: " +
			"(R12.1) with -seed: package-scoped names depend on the package's import path (plus a separator) only, field names on the struct identity hash only; no configuration other than the seed, no action ID, is read on that branch or by anything it calls; " +
			"(R12.2) without -seed: the salts are the package's GarbleActionID and addGarbleToHash(struct identity hash), and addGarbleToHash covers the garble binary id, GOGARBLE, -literals, -tiny and the control-flow setting; " +
			"(R12.3) the hash input is salt, seed bytes, name, into a freshly reset hasher; " +
			"(R12.4) the runtime magic number and entry-offset key take the same two-way split; " +
			"(R12.5) seedFlag.Set rejects seeds shorter than 8 bytes before storing anything; " +
			"(R12.6) every byte of the decoded seed is stored and every stored byte is hashed: no slicing between the base64 decoder and the hasher (two seeds that differ anywhere must give different names). " +
			"Does not decide that two names actually differ when an input differs (a property of SHA-256 and of cmd/go's action IDs).",
		perConfig: checkC12,
	})
}

func bindPresent(val bool) func(v ssa.Value) (bool, bool) {
	return func(v ssa.Value) (bool, bool) {
		if call, ok := v.(*ssa.Call); ok && calleeName(call) == "(mvdan.cc/garble.seedFlag).present" {
			return val, true
		}
		return false, false
	}
}

// saltOf returns the salt arguments of the live hashWithCustomSalt calls of fn under sp.
func saltCalls(w *World, fn *ssa.Function, sp *Specialised) []*ssa.Call {
	var out []*ssa.Call
	for _, b := range fn.Blocks {
		if !sp.Live[b] {
			continue
		}
		for _, in := range b.Instrs {
			if call, ok := in.(*ssa.Call); ok && calleeName(call) == "mvdan.cc/garble.hashWithCustomSalt" {
				out = append(out, call)
			}
		}
	}
	return out
}

// configInSlice lists configuration items and package facts a slice depends on.
func configInSlice(sl *Slice, globals map[*ssa.Global]string) []string {
	items := map[string]bool{}
	for v := range sl.Values {
		switch x := v.(type) {
		case *ssa.Global:
			if item, ok := globals[x]; ok {
				items[item] = true
			}
			if x.Name() == "sharedCache" {
				items["sharedCache"] = true
			}
		case *ssa.FieldAddr:
			n := namedOf(x.X.Type())
			if n == "sharedCacheType" || n == "listedPackage" {
				items[n+"."+fieldName(x.X.Type(), x.Field)] = true
			}
		}
	}
	return sortedKeys(items)
}

func checkC12(c *Ctx) {
	w := c.W
	globals := configGlobals(w)
	g := w.Graph()
	c.Rule("R12.1", "with -seed the salts depend on import path / struct identity only", 4)
	c.Rule("R12.2", "without -seed the salts are GarbleActionID / addGarbleToHash(struct identity), covering garble's inputs", 4)

	hwp, hws := w.Fn("hashWithPackage"), w.Fn("hashWithStruct")
	if hwp == nil || hws == nil {
		c.Undecided("R12.1", "hashWithPackage/hashWithStruct", "", "anchor functions not found")
		return
	}
	type expect struct {
		fn          *ssa.Function
		seeded      bool
		rule, key   string
		allow       map[string]bool // items the salt may depend on
		need        []string        // items or calls the salt must depend on
		needCalls   []string
		forbidCalls []string
	}
	cases := []expect{
		{fn: hwp, seeded: true, rule: "R12.1", key: "hashWithPackage salt with -seed", allow: map[string]bool{"listedPackage.ImportPath": true}, need: []string{"listedPackage.ImportPath"}},
		{fn: hws, seeded: true, rule: "R12.1", key: "hashWithStruct salt with -seed", allow: map[string]bool{}, needCalls: []string{"mvdan.cc/garble.typeutil_hash"}, forbidCalls: []string{"mvdan.cc/garble.addGarbleToHash"}},
		{fn: hwp, seeded: false, rule: "R12.2", key: "hashWithPackage salt without -seed", allow: map[string]bool{"listedPackage.GarbleActionID": true}, need: []string{"listedPackage.GarbleActionID"}},
		{fn: hws, seeded: false, rule: "R12.2", key: "hashWithStruct salt without -seed", allow: nil, needCalls: []string{"mvdan.cc/garble.typeutil_hash", "mvdan.cc/garble.addGarbleToHash"}},
	}
	for _, e := range cases {
		sp := Specialise(e.fn, bindPresent(e.seeded))
		calls := saltCalls(w, e.fn, sp)
		pos := w.Pos(e.fn.Pos())
		if len(calls) == 0 {
			c.Bad(e.rule, e.key, pos, "no live call to hashWithCustomSalt on this branch")
			continue
		}
		for _, call := range calls {
			sl := w.BackSlice(call.Call.Args[0], sliceOpt{Spec: sp})
			items := configInSlice(sl, globals)
			var bad []string
			if e.allow != nil {
				for _, it := range items {
					if !e.allow[it] {
						bad = append(bad, it)
					}
				}
			}
			for _, n := range e.need {
				found := false
				for _, it := range items {
					if it == n {
						found = true
					}
				}
				if !found {
					bad = append(bad, "missing "+n)
				}
			}
			for _, n := range e.needCalls {
				if !sl.HasCall(n) {
					bad = append(bad, "missing call "+n)
				}
			}
			for _, n := range e.forbidCalls {
				if sl.HasCall(n) {
					bad = append(bad, "depends on "+n)
				}
			}
			if e.fn == hwp && e.seeded && !sl.Consts[`"|"`] {
				bad = append(bad, "no separator after the import path (pkgfoo.bar and pkg.foobar would share names)")
			}
			detail := "salt depends on: " + strings.Join(items, ", ") + " " + strings.Join(sl.CallNames(), ", ")
			if len(bad) > 0 {
				c.Bad(e.rule, e.key, w.Pos(call.Pos()), "wrong salt dependencies: "+strings.Join(bad, "; ")+" ("+detail+")")
			} else {
				c.OK(e.rule, e.key, w.Pos(call.Pos()), detail)
			}
		}
	}

	// R12.1: nothing reachable from the struct identity hash or the name function reads configuration (other than the seed)
	idHash := w.Fn("typeutil_hash")
	hcs := w.Fn("hashWithCustomSalt")
	for _, root := range []*ssa.Function{idHash, hcs} {
		if root == nil {
			c.Undecided("R12.1", "configuration-free callee", "", "typeutil_hash or hashWithCustomSalt not found")
			continue
		}
		reach, _ := g.Reach(root)
		var bad []string
		for _, r := range configReads(w, reach, globals) {
			if r.Item == "flag:seed" {
				continue
			}
			bad = append(bad, r.Item+" in "+w.FuncName(r.Fn))
		}
		c.Check(len(bad) == 0, "R12.1", w.FuncName(root)+" reads no configuration but the seed", w.Pos(root.Pos()),
			fmt.Sprintf("%d functions reachable, no configuration read", len(reach)), "under -seed names would still depend on: "+strings.Join(dedup(bad), ", "))
	}

	// R12.2: addGarbleToHash covers garble's inputs
	hashed, _ := hashedConfig(w, globals)
	for _, must := range []string{"shared:BinaryContentID", "shared:GOGARBLE", "flag:literals", "flag:tiny", "env:GARBLE_EXPERIMENTAL_CONTROLFLOW"} {
		c.Check(hashed[must] != "", "R12.2", "addGarbleToHash covers "+must, hashed[must], "influences the unseeded salts",
			must+" does not influence addGarbleToHash: without -seed, names would not change when it changes")
	}

	// R12.3
	c.Rule("R16.2", "hash input is salt, seed, name into a reset hasher (shared with C16)", 4)
	if hcs != nil {
		var buf *ssa.Global
		for _, b := range hcs.Blocks {
			for _, in := range b.Instrs {
				if call, ok := in.(*ssa.Call); ok && calleeName(call) == "(*encoding/base64.Encoding).Encode" {
					if sl, ok := call.Call.Args[1].(*ssa.Slice); ok {
						buf, _ = sl.X.(*ssa.Global)
					}
				}
			}
		}
		if buf != nil {
			checkHashPurity(c, hcs, buf)
		} else {
			c.Undecided("R16.2", "hashWithCustomSalt buffer", "", "name buffer not found")
		}
	}

	// R12.4
	c.Rule("R12.4", "runtime magic value and entry-offset key: seed bytes when seeded, the GarbleActionID of the package they are compiled into otherwise", 2)
	rh := w.Fn("runtimeHashWithCustomSalt")
	if rh == nil {
		c.Undecided("R12.4", "runtimeHashWithCustomSalt", "", "anchor function not found")
	} else {
		for _, seeded := range []bool{true, false} {
			sp := Specialise(rh, bindPresent(seeded))
			var deps []string
			for _, b := range rh.Blocks {
				if !sp.Live[b] {
					continue
				}
				for _, in := range b.Instrs {
					ci, ok := in.(ssa.CallInstruction)
					if !ok || calleeName(ci) != "(io.Writer).Write" && calleeName(ci) != "(hash.Hash).Write" {
						continue
					}
					sl := w.BackSlice(ci.Common().Args[len(ci.Common().Args)-1], sliceOpt{Spec: sp})
					switch {
					case sl.Fields["seedFlag.bytes"]:
						deps = append(deps, "seed")
					case sl.Fields["listedPackage.GarbleActionID"]:
						// of the package named by a constant or by the caller (R06.6 checks which)
						deps = append(deps, "pkg.GarbleActionID")
					case len(sl.Params) == 1:
						deps = append(deps, "salt")
					default:
						deps = append(deps, "?("+sl.Summary()+")")
					}
				}
			}
			sort.Strings(deps)
			want := "pkg.GarbleActionID,salt"
			key := "runtimeHashWithCustomSalt without -seed"
			if seeded {
				want, key = "salt,seed", "runtimeHashWithCustomSalt with -seed"
			}
			c.Check(strings.Join(deps, ",") == want, "R12.4", key, w.Pos(rh.Pos()), "hash input: "+want, "hash input is "+strings.Join(deps, ",")+", expected "+want)
		}
	}

	// R12.5
	c.Rule("R12.5", "seedFlag.Set rejects seeds shorter than 8 bytes and stores nothing in that case", 1)
	set := w.Fn("(*seedFlag).Set")
	if set == nil {
		c.Undecided("R12.5", "(*seedFlag).Set", "", "anchor function not found")
		return
	}
	okLen := false
	for _, b := range set.Blocks {
		iff := ifOf(b)
		if iff == nil {
			continue
		}
		bo, ok := iff.Cond.(*ssa.BinOp)
		if !ok || bo.Op != token.LSS {
			continue
		}
		n, isConst := constInt(bo.Y)
		if !isConst || n != 8 {
			continue
		}
		lenCall, ok := bo.X.(*ssa.Call)
		if !ok || calleeName(lenCall) != "builtin.len" || !w.BackSlice(lenCall.Call.Args[0], sliceOpt{}).HasCall("(*encoding/base64.Encoding).DecodeString") {
			continue
		}
		// true branch: returns an error and never reaches the store of f.bytes
		tb := b.Succs[0]
		reach := reachableAvoiding(tb, nil)
		storeReached, errReturn := false, false
		for rb := range reach {
			for _, in := range rb.Instrs {
				if st, ok := in.(*ssa.Store); ok {
					if fa, ok := st.Addr.(*ssa.FieldAddr); ok && fieldName(fa.X.Type(), fa.Field) == "bytes" {
						storeReached = true
					}
				}
				if r, ok := in.(*ssa.Return); ok {
					if res := retResults(r); len(res) == 1 && !isNilConst(res[0]) {
						errReturn = true
					} else {
						storeReached = true // a nil return on the short-seed path
					}
				}
			}
		}
		if errReturn && !storeReached {
			okLen = true
		}
	}
	c.Check(okLen, "R12.5", "(*seedFlag).Set length check", w.Pos(set.Pos()), "len(decoded) < 8 returns an error before the seed is stored",
		"a decoded seed shorter than 8 bytes is no longer rejected: binary.BigEndian.Uint64(seed) in transformCompile would panic, or a weak seed be used")

	// R12.6: no truncation of the seed on its way into the names
	c.Rule("R12.6", "the whole decoded seed is stored and the whole stored seed is hashed", 3)
	// leavesNoSlice follows phis and reports a truncating slice expression on the way
	var truncated func(v ssa.Value, seen map[ssa.Value]bool) string
	truncated = func(v ssa.Value, seen map[ssa.Value]bool) string {
		if seen[v] {
			return ""
		}
		seen[v] = true
		switch x := v.(type) {
		case *ssa.Phi:
			for _, e := range x.Edges {
				if why := truncated(e, seen); why != "" {
					return why
				}
			}
		case *ssa.Slice:
			if _, fresh := x.X.(*ssa.Alloc); fresh {
				return "" // make([]byte, constant): a new array sliced whole
			}
			if x.Low != nil || x.High != nil || x.Max != nil {
				return "sliced at " + w.Pos(x.Pos())
			}
			return truncated(x.X, seen)
		case *ssa.UnOp:
			if x.Op == token.MUL {
				// a load: look at what is stored there within the function
				if al, ok := x.X.(*ssa.Alloc); ok {
					if refs := al.Referrers(); refs != nil {
						for _, r := range *refs {
							if st, ok := r.(*ssa.Store); ok && st.Addr == ssa.Value(al) {
								if why := truncated(st.Val, seen); why != "" {
									return why
								}
							}
						}
					}
				}
			}
		}
		return ""
	}
	nStores := 0
	for _, b := range set.Blocks {
		for _, in := range b.Instrs {
			st, ok := in.(*ssa.Store)
			if !ok {
				continue
			}
			fa, ok := st.Addr.(*ssa.FieldAddr)
			if !ok || fieldName(fa.X.Type(), fa.Field) != "bytes" {
				continue
			}
			nStores++
			if _, isMake := st.Val.(*ssa.MakeSlice); isMake {
				continue // -seed=random: a fresh buffer, filled in place
			}
			if sl, ok := st.Val.(*ssa.Slice); ok {
				if _, fresh := sl.X.(*ssa.Alloc); fresh {
					continue // the same, with a constant length
				}
			}
			why := truncated(st.Val, map[ssa.Value]bool{})
			fromDecoder := w.BackSlice(st.Val, sliceOpt{}).HasCall("(*encoding/base64.Encoding).DecodeString")
			c.Check(why == "" && fromDecoder, "R12.6", "(*seedFlag).Set stores the decoded seed", w.Pos(st.Pos()), "f.bytes is the decoder's result, unsliced",
				"the seed stored for hashing is not the whole decoded -seed value ("+why+"): seeds that differ only in the dropped bytes give identical names, binaries and maps")
		}
	}
	if nStores == 0 {
		c.Undecided("R12.6", "(*seedFlag).Set stores the decoded seed", w.Pos(set.Pos()), "no store to seedFlag.bytes found")
	}
	// the two hashing sites write flagSeed.bytes as loaded
	for _, name := range []string{"hashWithCustomSalt", "entryOffKey"} {
		fn := w.Fn(name)
		if fn == nil {
			c.Undecided("R12.6", name+" hashes the whole seed", "", "function not found")
			continue
		}
		found, why := false, ""
		for _, cs := range w.CallsTo("(io.Writer).Write") {
			if cs.Fn != fn {
				continue
			}
			arg := cs.Args()[len(cs.Args())-1]
			sl := w.BackSlice(arg, sliceOpt{})
			if !sl.Fields["flagSeed.bytes"] && !sl.Fields["seedFlag.bytes"] {
				continue
			}
			found = true
			if t := truncated(arg, map[ssa.Value]bool{}); t != "" {
				why = t
			}
		}
		switch {
		case !found && name == "entryOffKey":
			// the key may take the seed through another route; R12.4 decides that
			c.OK("R12.6", name+" hashes the whole seed", w.Pos(fn.Pos()), "no direct write of the seed here (see R12.4)")
		case !found:
			c.Bad("R12.6", name+" hashes the whole seed", w.Pos(fn.Pos()), "the seed bytes are no longer written into the hash")
		default:
			c.Check(why == "", "R12.6", name+" hashes the whole seed", w.Pos(fn.Pos()), "hasher.Write(flagSeed.bytes), unsliced",
				"only part of the seed is hashed ("+why+"): seeds that differ in the other bytes give identical names")
		}
	}
}
