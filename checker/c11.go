package main

import (
	"fmt"
	"go/token"
	"go/types"
	"sort"
	"strings"

	"golang.org/x/tools/go/ssa"
)

func init() {
	register(&propCheck{
		id: "C11",
		explain: "Decides the exhaustiveness clauses behind 'control-flow obfuscation preserves behaviour': " +
			"(R11.1) reject by default: the SSA-to-AST converter's instruction switch, its terminator switch, the flattening pass's terminator switch, the type converter and the constant converter each either handle a kind or fail (error wrapping ErrUnsupported, or panic); measured against every concrete ssa.Instruction of the x/tools version /repo resolves; a case that silently skips an instruction must be in the reviewed list; " +
			"(R11.2) operand coverage: in each handled case every exported field of the instruction type is read, or is in the table of fields without run-time meaning; " +
			"(R11.3) function coverage: the converter consumes every part of an ssa.Function that carries behaviour — FreeVars, AnonFuncs, Blocks, Signature (parameters and results) and Recover — or rejects functions that have it; " +
			"(R11.4) directive parameters are bounded by their maxima and unknown hardening names are rejected; " +
			"(R11.5) the comparison guarding a trash block is drawn only from operators for which constant.Compare is false; " +
			"(R11.7) block splitting repairs Preds in every block and never cuts inside the leading phis; (R11.8) constants are emitted exactly (no abbreviating formatter); (R11.9) every declared tuple component is assigned; (R11.10) an Alloc is converted to new(T) where it executes, or is a recorded named result; " +
			"(R11.6) phi lowering is staged: predecessors assign a staging variable, the phi's block copies it (no swap or lost-copy problem). " +
			"Does not decide semantic preservation by flattening, splitting, junk and trash insertion or hardening.",
		perConfig: checkC11,
	})
}

// typeSwitch describes one "switch x := v.(type)" as go/ssa lowers it.
type tsCase struct {
	Type   types.Type
	Assert *ssa.TypeAssert
	Body   *ssa.BasicBlock
	Val    ssa.Value // the asserted value (extract #0)
}

type typeSwitch struct {
	On      ssa.Value
	Cases   []tsCase
	Default *ssa.BasicBlock
}

func typeSwitches(fn *ssa.Function) []*typeSwitch {
	byVal := map[ssa.Value]*typeSwitch{}
	var order []ssa.Value
	for _, b := range fn.Blocks {
		for _, in := range b.Instrs {
			ta, ok := in.(*ssa.TypeAssert)
			if !ok || !ta.CommaOk {
				continue
			}
			iff := ifOf(b)
			if iff == nil {
				continue
			}
			ts := byVal[ta.X]
			if ts == nil {
				ts = &typeSwitch{On: ta.X}
				byVal[ta.X] = ts
				order = append(order, ta.X)
			}
			c := tsCase{Type: ta.AssertedType, Assert: ta, Body: b.Succs[0]}
			for _, r := range *ta.Referrers() {
				if ex, ok := r.(*ssa.Extract); ok && ex.Index == 0 {
					c.Val = ex
				}
			}
			ts.Cases = append(ts.Cases, c)
			// the false successor of the last assert in the chain is the default
			next := b.Succs[1]
			hasAssert := false
			for _, ni := range next.Instrs {
				if nta, ok := ni.(*ssa.TypeAssert); ok && nta.X == ta.X {
					hasAssert = true
				}
			}
			if !hasAssert {
				ts.Default = next
			}
		}
	}
	var out []*typeSwitch
	for _, v := range order {
		if len(byVal[v].Cases) >= 2 {
			out = append(out, byVal[v])
		}
	}
	return out
}

// rejects: does control entering block b necessarily end in a panic or a
// return of a non-nil error, without falling back into the normal flow?
func rejects(w *World, b *ssa.BasicBlock) (bool, string) {
	seen := map[*ssa.BasicBlock]bool{}
	var walk func(b *ssa.BasicBlock, depth int) (bool, string)
	walk = func(b *ssa.BasicBlock, depth int) (bool, string) {
		if seen[b] || depth > 6 {
			return false, "loops back into the normal flow"
		}
		seen[b] = true
		switch t := b.Instrs[len(b.Instrs)-1].(type) {
		case *ssa.Panic:
			return true, "panics"
		case *ssa.Return:
			for _, r := range retResults(t) {
				if isErrorType(r.Type()) && !isNilConst(r) {
					if w.BackSlice(r, sliceOpt{}).Globals["ssa2ast.ErrUnsupported"] {
						return true, "returns an error wrapping ErrUnsupported"
					}
					return true, "returns an error"
				}
			}
			return false, "returns without an error"
		case *ssa.Jump:
			return walk(b.Succs[0], depth+1)
		}
		return false, "continues"
	}
	return walk(b, 0)
}

// silently ignored: the case body does nothing and rejoins the loop.
func caseIgnored(b *ssa.BasicBlock) bool {
	for _, in := range b.Instrs {
		switch in.(type) {
		case *ssa.Jump, *ssa.DebugRef:
		default:
			return false
		}
	}
	return true
}

// Instruction fields without run-time meaning for the emitted Go code.
var irrelevantFields = map[string]string{
	"Alloc.Heap":       "escape analysis result; the Go compiler decides again",
	"Alloc.Comment":    "debugging aid",
	"Phi.Comment":      "debugging aid",
	"Defer.DeferStack": "only set for defers inside range-over-func bodies, which go/ssa lowers into separate functions the converter rejects (MakeClosure of a non-anonymous function)",
	"Call.Call":        "", // placeholder: read through convertCall
}

var reviewedIgnored = map[string]string{
	"*ssa.RunDefers": "the emitted function runs its deferred calls at return by itself",
	"*ssa.DebugRef":  "no run-time meaning",
}

func shortType(t types.Type) string {
	s := t.String()
	s = strings.Replace(s, "golang.org/x/tools/go/ssa.", "ssa.", 1)
	s = strings.Replace(s, "go/types.", "types.", 1)
	return s
}

func checkC11(c *Ctx) {
	w := c.W
	c.Rule("R11.1", "every instruction, terminator, type and constant kind is handled or rejected; silent skips are reviewed", 40)
	cb := w.Fn("ssa2ast.(*funcConverter).convertBlock")
	if cb == nil {
		c.Undecided("R11.1", "convertBlock", "", "anchor function not found")
		return
	}
	// concrete instruction types of the resolved x/tools
	ssaPkg := w.All["golang.org/x/tools/go/ssa"]
	if ssaPkg == nil {
		c.Undecided("R11.1", "go/ssa", "", "package golang.org/x/tools/go/ssa not in the closure")
		return
	}
	instrIface := ssaPkg.Types.Scope().Lookup("Instruction").Type().Underlying().(*types.Interface)
	var concrete []string
	for _, name := range ssaPkg.Types.Scope().Names() {
		tn, ok := ssaPkg.Types.Scope().Lookup(name).(*types.TypeName)
		if !ok || !tn.Exported() {
			continue
		}
		if _, isStruct := tn.Type().Underlying().(*types.Struct); !isStruct {
			continue
		}
		if types.Implements(types.NewPointer(tn.Type()), instrIface) {
			concrete = append(concrete, "*ssa."+name)
		}
	}
	c.Count("concrete ssa.Instruction types (x/tools "+moduleVersion(ssaPkg)+")", len(concrete))
	tss := typeSwitches(cb)
	if len(tss) < 2 {
		c.Undecided("R11.1", "convertBlock type switches", w.Pos(cb.Pos()), fmt.Sprintf("expected the instruction and the terminator switch, found %d", len(tss)))
		return
	}
	// the larger one is the instruction switch
	sort.Slice(tss, func(i, j int) bool { return len(tss[i].Cases) > len(tss[j].Cases) })
	instrSw, termSw := tss[0], tss[1]
	handled := map[string]tsCase{}
	for _, cs := range instrSw.Cases {
		handled[shortType(cs.Type)] = cs
	}
	termHandled := map[string]bool{}
	for _, cs := range termSw.Cases {
		termHandled[shortType(cs.Type)] = true
	}
	defRejects, defHow := false, "no default"
	if instrSw.Default != nil {
		defRejects, defHow = rejects(w, instrSw.Default)
	}
	termRejects, termHow := false, "no default"
	if termSw.Default != nil {
		termRejects, termHow = rejects(w, termSw.Default)
	}
	for _, t := range concrete {
		key := "instruction " + t
		cs, isHandled := handled[t]
		switch {
		case isHandled && caseIgnored(cs.Body):
			if why := reviewedIgnored[t]; why != "" {
				c.OK("R11.1", key, w.Pos(cs.Assert.Pos()), "skipped, reviewed: "+why)
			} else {
				c.Bad("R11.1", key, w.Pos(cs.Assert.Pos()), t+" instructions are silently dropped from the rewritten function: its side effect disappears without a build error")
			}
		case isHandled:
			c.OK("R11.1", key, w.Pos(cs.Assert.Pos()), "converted")
		case termHandled[t]:
			c.OK("R11.1", key, w.Pos(cb.Pos()), "converted as a block terminator")
		case defRejects:
			c.OK("R11.1", key, w.Pos(cb.Pos()), "not handled: the default case "+defHow)
		default:
			c.Bad("R11.1", key, w.Pos(cb.Pos()), t+" is neither converted nor rejected (the default case "+defHow+")")
		}
	}
	c.Check(termRejects, "R11.1", "convertBlock terminator default", w.Pos(cb.Pos()), termHow, "an unknown block terminator is not rejected: "+termHow)

	// applyFlattening's terminator switch
	if af := w.Fn("ctrlflow.applyFlattening"); af != nil {
		ok, how := false, "no type switch found"
		for _, ts := range typeSwitches(af) {
			if ts.Default != nil {
				ok, how = rejects(w, ts.Default)
			}
		}
		c.Check(ok, "R11.1", "applyFlattening terminator default", w.Pos(af.Pos()), how, "applyFlattening silently keeps blocks with an unknown terminator outside the dispatcher: "+how)
	} else {
		c.Undecided("R11.1", "applyFlattening", "", "function not found")
	}
	// TypeConverter.Convert and ConstToAst
	if tcv := w.Fn("ssa2ast.(*TypeConverter).Convert"); tcv != nil {
		ok, how := false, "no default"
		for _, ts := range typeSwitches(tcv) {
			if ts.Default != nil && len(ts.Cases) > 5 {
				ok, how = rejects(w, ts.Default)
			}
		}
		c.Check(ok, "R11.1", "TypeConverter.Convert default", w.Pos(tcv.Pos()), how, "an unsupported type is converted into nothing instead of failing the build: "+how)
	}
	if cta := w.Fn("asthelper.ConstToAst"); cta != nil {
		// switch on Kind(): the block reached when no case matches must panic
		ok := false
		for _, b := range cta.Blocks {
			if _, isPanic := b.Instrs[len(b.Instrs)-1].(*ssa.Panic); isPanic {
				allFalse := true
				for _, f := range edgeFacts(b) {
					if f.Outcome {
						allFalse = false
					}
				}
				if allFalse {
					ok = true
				}
			}
		}
		c.Check(ok, "R11.1", "ConstToAst default", w.Pos(cta.Pos()), "panics on an unknown constant kind", "an unknown constant kind is converted into nothing")
	}

	// R11.2 ---------------------------------------------------------------
	c.Rule("R11.2", "every exported field of a handled instruction is read in its case, or has no run-time meaning", 60)
	allSw := append([]tsCase{}, instrSw.Cases...)
	allSw = append(allSw, termSw.Cases...)
	for _, cs := range allSw {
		tname := shortType(cs.Type)
		ptr, ok := cs.Type.(*types.Pointer)
		if !ok {
			continue
		}
		st, ok := ptr.Elem().Underlying().(*types.Struct)
		if !ok || cs.Val == nil || caseIgnored(cs.Body) {
			continue
		}
		read := map[string]bool{}
		wholePassed := false
		var visit func(v ssa.Value)
		seenV := map[ssa.Value]bool{}
		visit = func(v ssa.Value) {
			if seenV[v] || v.Referrers() == nil {
				return
			}
			seenV[v] = true
			for _, r := range *v.Referrers() {
				switch x := r.(type) {
				case *ssa.FieldAddr:
					read[fieldName(x.X.Type(), x.Field)] = true
				case *ssa.Field:
					read[fieldName(x.X.Type(), x.Field)] = true
				case *ssa.MakeInterface:
					visit(x)
				case *ssa.ChangeInterface:
					visit(x)
				case *ssa.Phi:
					visit(x)
				case ssa.CallInstruction:
					// passed to a helper: look at what the helper reads of the same parameter
					if callee := x.Common().StaticCallee(); callee != nil && w.isModuleFn(callee) {
						for i, a := range x.Common().Args {
							if a == v && i < len(callee.Params) {
								visit(callee.Params[i])
							}
						}
					} else if x.Common().IsInvoke() {
						wholePassed = true
					}
				}
			}
		}
		visit(cs.Val)
		_ = wholePassed
		for i := 0; i < st.NumFields(); i++ {
			f := st.Field(i)
			if !f.Exported() || f.Embedded() {
				continue
			}
			fkey := strings.TrimPrefix(tname, "*ssa.") + "." + f.Name()
			key := "field " + fkey
			switch {
			case read[f.Name()]:
				c.OK("R11.2", key, w.Pos(cs.Assert.Pos()), "read by the conversion")
			case irrelevantFields[fkey] != "":
				c.OK("R11.2", key, w.Pos(cs.Assert.Pos()), "not read, reviewed: "+irrelevantFields[fkey])
			default:
				c.Bad("R11.2", key, w.Pos(cs.Assert.Pos()), "the conversion of "+tname+" never reads its field "+f.Name()+": whatever that operand or flag means at run time is lost in the rewritten function")
			}
		}
	}

	// R11.3 ---------------------------------------------------------------
	c.Rule("R11.3", "the converter consumes FreeVars, AnonFuncs, Blocks, Signature (parameters, results) and Recover of the function", 5)
	g := w.Graph()
	conv := w.Fn("ssa2ast.Convert")
	obf := w.Fn("ctrlflow.Obfuscate")
	reach, _ := g.Reach(conv, obf)
	fnFields := map[string]string{}
	for fn := range reach {
		for _, b := range fn.Blocks {
			for _, in := range b.Instrs {
				if fa, ok := in.(*ssa.FieldAddr); ok && namedOf(fa.X.Type()) == "Function" && strings.Contains(fa.X.Type().String(), "go/ssa") {
					fnFields[fieldName(fa.X.Type(), fa.Field)] = w.Pos(fa.Pos())
				}
			}
		}
	}
	c.Count("functions reachable from ssa2ast.Convert and ctrlflow.Obfuscate", len(reach))
	for _, f := range []string{"FreeVars", "AnonFuncs", "Blocks", "Signature", "Recover"} {
		what := map[string]string{
			"Recover": "the block executed after a recovered panic (functions with named results set by a recovering defer return those values through it)",
		}[f]
		if what == "" {
			what = "part of the function's behaviour"
		}
		c.Check(fnFields[f] != "", "R11.3", "ssa.Function."+f, fnFields[f], "read at "+fnFields[f],
			"neither ssa2ast nor ctrlflow ever reads ssa.Function."+f+" — "+what+" — nor rejects functions that have one: the rewritten function silently behaves differently")
	}

	// R11.4 ---------------------------------------------------------------
	c.Rule("R11.4", "directive parameters are bounded; unknown hardening names are rejected", 3)
	if gi := w.Fn("ctrlflow.(directiveParamMap).GetInt"); gi != nil {
		okMax := false
		for _, b := range gi.Blocks {
			iff := ifOf(b)
			if iff == nil {
				continue
			}
			bo, ok := iff.Cond.(*ssa.BinOp)
			if !ok || bo.Op != token.GTR {
				continue
			}
			if p, ok := bo.Y.(*ssa.Parameter); ok && p.Name() == "max" {
				if rj, _ := rejects(w, b.Succs[0]); rj {
					okMax = true
				}
			}
		}
		c.Check(okMax, "R11.4", "GetInt rejects values above the maximum", w.Pos(gi.Pos()), "val > max returns an error", "directive values above their documented maximum are accepted")
		// every call passes a max constant
		n, bad := 0, ""
		for _, cs := range w.CallsToFn(gi) {
			n++
			if _, ok := constInt(cs.Args()[3]); !ok {
				bad = w.Pos(cs.Instr.Pos())
			}
		}
		c.Check(n >= 4 && bad == "", "R11.4", "every directive parameter has a constant maximum", bad, fmt.Sprintf("%d GetInt calls", n), "a directive parameter is read without a constant bound at "+bad)
	} else {
		c.Undecided("R11.4", "GetInt", "", "function not found")
	}
	if nh := w.Fn("ctrlflow.newDispatcherHardening"); nh != nil {
		ok := false
		for _, b := range nh.Blocks {
			for _, in := range b.Instrs {
				lk, isLk := in.(*ssa.Lookup)
				if !isLk || !lk.CommaOk {
					continue
				}
				if !w.BackSlice(lk.X, sliceOpt{StopGlobals: []string{"ctrlflow.hardeningMap"}}).Globals["ctrlflow.hardeningMap"] {
					continue
				}
				for _, r := range *lk.Referrers() {
					if ex, isEx := r.(*ssa.Extract); isEx && ex.Index == 1 {
						for _, q := range *ex.Referrers() {
							if iff, isIf := q.(*ssa.If); isIf {
								if rj, _ := rejects(w, iff.Block().Succs[1]); rj {
									ok = true
								}
							}
						}
					}
				}
			}
		}
		c.Check(ok, "R11.4", "unknown hardening names are rejected", w.Pos(nh.Pos()), "a name missing from hardeningMap panics", "an unknown flatten_hardening name is silently ignored")
	}

	// R11.5 ---------------------------------------------------------------
	c.Rule("R11.5", "trash-block guards use only operators for which the comparison is false", 1)
	if rf := w.Fn("ctrlflow.randomAlwaysFalseCond"); rf != nil {
		okAppend, okResult := false, false
		for _, b := range rf.Blocks {
			for _, in := range b.Instrs {
				call, isCall := in.(*ssa.Call)
				if !isCall || calleeName(call) != "builtin.append" {
					continue
				}
				for _, f := range edgeFacts(b) {
					if cmp, isCmp := f.V.(*ssa.Call); isCmp && calleeName(cmp) == "go/constant.Compare" && !f.Outcome {
						okAppend = true
					}
				}
			}
		}
		for _, r := range returnsOf(rf) {
			res := retResults(r)
			if len(res) == 3 {
				sl := w.BackSlice(res[1], sliceOpt{})
				if sl.HasCall("builtin.append") && sl.HasCall("(*math/rand.Rand).Intn") {
					okResult = true
				}
			}
		}
		c.Check(okAppend && okResult, "R11.5", "randomAlwaysFalseCond", w.Pos(rf.Pos()), "candidates are appended only when constant.Compare is false, and the result is one of them",
			fmt.Sprintf("the guard of trash blocks may hold (appended under !Compare: %v, result drawn from candidates: %v): trash code would execute", okAppend, okResult))
	} else {
		c.Undecided("R11.5", "randomAlwaysFalseCond", "", "function not found")
	}

	// R11.6 ---------------------------------------------------------------
	// Phis of a block are one parallel assignment that happens on the edge. The converter
	// appends an assignment to the end of each predecessor; if that assignment targets the
	// very variable other code reads as the phi's value, (a) a second phi of the same block
	// that reads the first one gets the new value ("a, b = b, a" in a loop: the swap
	// problem) and (b) code reached over another edge of the predecessor sees the value
	// of the next iteration (the lost-copy problem). The assignment in the predecessor
	// must therefore go to a staging variable of its own, and the phi's variable be
	// assigned from it in the phi's block.
	c.Rule("R11.6", "phi values are staged: predecessors assign a variable that nothing else reads, the phi's block copies it", 2)
	cb = w.Fn("ssa2ast.(*funcConverter).convertBlock")
	if cb == nil {
		c.Undecided("R11.6", "convertBlock phi lowering", "", "convertBlock not found")
		return
	}
	gvn := "(*mvdan.cc/garble/internal/ssa2ast.funcConverter).getVarName"
	// nameOfIdentArg: the string handed to ast.NewIdent for an expression argument
	identName := func(v ssa.Value) ssa.Value {
		if mi, ok := v.(*ssa.MakeInterface); ok {
			v = mi.X
		}
		if call, ok := v.(*ssa.Call); ok && calleeName(call) == "go/ast.NewIdent" {
			return call.Call.Args[0]
		}
		return nil
	}
	isPhiName := func(v ssa.Value) bool { // exactly getVarName(<the phi>)
		call, ok := v.(*ssa.Call)
		return ok && calleeName(call) == gvn
	}
	derivedFromPhiName := func(v ssa.Value) bool { // getVarName(...) + something
		bo, ok := v.(*ssa.BinOp)
		if !ok || bo.Op != token.ADD {
			return false
		}
		return isPhiName(bo.X) || isPhiName(bo.Y)
	}
	var predAssign, headAssign *ssa.Call
	staged := false
	for _, b := range cb.Blocks {
		for _, in := range b.Instrs {
			st, ok := in.(*ssa.Store)
			if !ok {
				continue
			}
			fa, ok := st.Addr.(*ssa.FieldAddr)
			if !ok || fieldName(fa.X.Type(), fa.Field) != "Phi" || namedOf(fa.X.Type()) != "AstBlock" {
				continue
			}
			for _, cv := range w.BackSlice(st.Val, sliceOpt{}).Calls["mvdan.cc/garble/internal/asthelper.AssignStmt"] {
				call := cv.(*ssa.Call)
				predAssign = call
				if n := identName(call.Call.Args[0]); n != nil && derivedFromPhiName(n) {
					staged = true
				}
			}
		}
	}
	if predAssign == nil {
		c.Undecided("R11.6", "predecessor assignment of a phi", w.Pos(cb.Pos()), "no asthelper.AssignStmt flows into AstBlock.Phi: the phi lowering is not where it used to be")
		return
	}
	c.Check(staged, "R11.6", "predecessor assignment of a phi", w.Pos(predAssign.Pos()), "targets a staging variable named after the phi",
		"the predecessor assigns the phi's own variable: a loop doing 'a, b = b, a' computes a = b; b = a (both equal), and a value of the phi still needed on another edge of the predecessor is overwritten")
	for _, cs := range w.CallsTo("mvdan.cc/garble/internal/asthelper.AssignStmt") {
		if cs.Fn != cb {
			continue
		}
		l, r := identName(cs.Args()[0]), identName(cs.Args()[1])
		if l != nil && r != nil && isPhiName(l) && derivedFromPhiName(r) {
			headAssign = cs.Instr.(*ssa.Call)
		}
	}
	c.Check(!staged || headAssign != nil, "R11.6", "copy at the head of the phi's block", w.Pos(cb.Pos()), "phi = staging variable, emitted where the phi instruction stands",
		"the staging variable is never copied into the phi's variable: every use of the phi reads an unset variable")

	// R11.7 ---------------------------------------------------------------
	// Block splitting edits the CFG by hand. The converter places the staged value of a
	// phi at the end of the block recorded in Preds for that edge, so after a block is
	// split no Preds entry anywhere may still name the head half (junk and trash blocks
	// sit on edges without updating the Preds of their target, so the stale entries are
	// not only in the direct successors), and the cut may not fall inside the leading phis.
	c.Rule("R11.7", "splitting a block repairs Preds function-wide and never cuts inside the leading phis", 2)
	sp := w.Fn("ctrlflow.applySplitting")
	if sp == nil {
		c.Undecided("R11.7", "applySplitting", "", "function not found")
		return
	}
	// (a) the store X.Preds[i] = newBlock: X must come from ranging over the function's Blocks
	repaired, overAll := false, false
	var storePos token.Pos
	for _, b := range sp.Blocks {
		for _, in := range b.Instrs {
			st, ok := in.(*ssa.Store)
			if !ok {
				continue
			}
			ia, ok := st.Addr.(*ssa.IndexAddr)
			if !ok {
				continue
			}
			// ia.X is the load of <block>.Preds; <block> is an element of the slice being ranged over
			fieldOfLoad := func(v ssa.Value) (string, ssa.Value) {
				ld, ok := v.(*ssa.UnOp)
				if !ok || ld.Op != token.MUL {
					return "", nil
				}
				fa, ok := ld.X.(*ssa.FieldAddr)
				if !ok {
					return "", nil
				}
				return namedOf(fa.X.Type()) + "." + fieldName(fa.X.Type(), fa.Field), fa.X
			}
			f1, blk := fieldOfLoad(ia.X)
			if f1 != "BasicBlock.Preds" {
				continue
			}
			if _, isAlloc := st.Val.(*ssa.Alloc); !isAlloc {
				continue // the new block is a fresh allocation
			}
			repaired = true
			storePos = st.Pos()
			if el, ok := blk.(*ssa.UnOp); ok && el.Op == token.MUL {
				if eia, ok := el.X.(*ssa.IndexAddr); ok {
					if f2, _ := fieldOfLoad(eia.X); f2 == "Function.Blocks" {
						overAll = true
					}
				}
			}
		}
	}
	switch {
	case !repaired:
		c.Bad("R11.7", "Preds repair after a split", w.Pos(sp.Pos()), "applySplitting no longer rewrites any Preds entry to the new block: phi values are assigned in the head half, before they are computed")
	default:
		c.Check(overAll, "R11.7", "Preds repair after a split", w.Pos(storePos), "every block of the function is visited",
			"only the direct successors of the split block are repaired: with a junk or trash block on the edge, the phi block's Preds still names the head half and the phi receives the value of the previous iteration")
	}
	// (b) the cut index depends on the number of leading phis
	phiAware := false
	var counters []*ssa.BasicBlock // headers of the loops that test for *ssa.Phi
	for _, b := range sp.Blocks {
		for _, in := range b.Instrs {
			if ta, ok := in.(*ssa.TypeAssert); ok && strings.HasSuffix(ta.AssertedType.String(), "ssa.Phi") {
				if h := loopHeaderOf(b); h != nil {
					counters = append(counters, h)
				}
			}
		}
	}
	for _, b := range sp.Blocks {
		for _, in := range b.Instrs {
			cut, ok := in.(*ssa.Slice)
			if !ok || cut.Low == nil {
				continue
			}
			for v := range w.BackSlice(cut.Low, sliceOpt{}).Values {
				if phi, ok := v.(*ssa.Phi); ok {
					for _, h := range counters {
						if phi.Block() == h {
							phiAware = true
						}
					}
				}
			}
		}
	}
	c.Check(phiAware, "R11.7", "cut position skips the leading phis", w.Pos(sp.Pos()), "applySplitting counts the *ssa.Phi prefix of the block",
		"the cut may fall between two phis of a loop header: the second phi lands in a block with one predecessor and the converter panics or assigns it from the wrong edge")

	// R11.8 ---------------------------------------------------------------
	// go/constant's Value.String is "a short, quoted (human-readable) form": floats come
	// out as %.6g. A constant printed with it changes value (x * 0.123456789012 becomes
	// x * 0.123457). Only ExactString, or a formatter of the extracted machine value, keeps it.
	c.Rule("R11.8", "constants are emitted exactly: no abbreviating formatter in ConstToAst", 1)
	if cta := w.Fn("asthelper.ConstToAst"); cta == nil {
		c.Undecided("R11.8", "ConstToAst", "", "function not found")
	} else {
		bad := ""
		for _, b := range cta.Blocks {
			for _, in := range b.Instrs {
				call, ok := in.(*ssa.Call)
				if !ok || !call.Call.IsInvoke() {
					continue
				}
				if call.Call.Method.Name() == "String" && strings.HasSuffix(call.Call.Value.Type().String(), "constant.Value") {
					bad = "ConstToAst prints a constant with Value.String() at " + w.Pos(call.Pos()) + ", an approximation (floats keep 6 significant digits): the rewritten function computes with a different constant"
				}
			}
		}
		c.Check(bad == "", "R11.8", "ConstToAst formatters", w.Pos(cta.Pos()), "ExactString or strconv on the machine value", bad)
	}

	// R11.9 ---------------------------------------------------------------
	// A component of an instruction's result tuple that later code reads gets a variable
	// (declared through astFunc.Vars). If the case never builds an identifier from that
	// name, nothing assigns the variable and its readers see the zero value
	// ("case v, ok := <-ch" in a select: ok is always false).
	c.Rule("R11.9", "every declared tuple component is assigned: its name is used to build an identifier", 4)
	if cbf := w.Fn("ssa2ast.(*funcConverter).convertBlock"); cbf == nil {
		c.Undecided("R11.9", "convertBlock tuple components", "", "convertBlock not found")
	} else {
		n := 0
		for _, cs := range w.CallsTo("(*mvdan.cc/garble/internal/ssa2ast.funcConverter).tupleVarNameAndType") {
			if cs.Fn != cbf {
				continue
			}
			tuple, ok := cs.Instr.(*ssa.Call)
			if !ok || tuple.Referrers() == nil {
				continue
			}
			for _, r := range *tuple.Referrers() {
				ex, ok := r.(*ssa.Extract)
				if !ok || ex.Index != 0 || ex.Referrers() == nil {
					continue
				}
				n++
				declared, used := false, false
				for _, u := range *ex.Referrers() {
					switch x := u.(type) {
					case *ssa.MapUpdate:
						if x.Key == ssa.Value(ex) {
							declared = true
						}
					case *ssa.Call:
						if calleeName(x) == "go/ast.NewIdent" {
							used = true
						}
					}
				}
				key := fmt.Sprintf("convertBlock tuple component #%d (%s)", n, valueDesc(tuple.Call.Args[len(tuple.Call.Args)-1]))
				c.Check(!declared || used, "R11.9", key, w.Pos(tuple.Pos()), "declared and assigned, or never declared",
					"a tuple component is declared as a variable but no identifier is ever built from its name: the variable stays zero (recvOk of a select, a comma-ok result, ...)")
			}
		}
		if n == 0 {
			c.Undecided("R11.9", "convertBlock tuple components", w.Pos(cbf.Pos()), "no tupleVarNameAndType call found")
		}
	}

	// R11.10 --------------------------------------------------------------
	// An ssa.Alloc is executed: each time control passes it, it yields fresh zeroed storage
	// ("var hist [4]int" in a loop body starts from zero in every iteration). The converter
	// must therefore emit an allocating expression, new(T), at that point; a variable
	// declared once for the function is not re-zeroed. The one exception is a named result
	// that a recovering deferred call may have to see, which is the function's own result.
	c.Rule("R11.10", "an Alloc yields fresh zeroed storage every time it executes: it is converted to new(T), or is a recorded named result", 1)
	if cbf := w.Fn("ssa2ast.(*funcConverter).convertBlock"); cbf != nil {
		var body *ssa.BasicBlock
		for _, ts := range typeSwitches(cbf) {
			for _, cse := range ts.Cases {
				if strings.HasSuffix(cse.Type.String(), "ssa.Alloc") {
					body = cse.Body
				}
			}
		}
		if body == nil {
			c.Undecided("R11.10", "convertBlock Alloc case", w.Pos(cbf.Pos()), "no case for *ssa.Alloc found")
		} else {
			n, bad := 0, ""
			for _, b := range cbf.Blocks {
				if !body.Dominates(b) {
					continue
				}
				for _, in := range b.Instrs {
					call, ok := in.(*ssa.Call)
					if !ok || call.Call.IsInvoke() || len(call.Call.Args) != 2 {
						continue
					}
					// the defineVar closure: (register, ast.Expr) -> ast.Stmt
					if !strings.Contains(call.Call.Signature().String(), "register") && !strings.Contains(calleeName(call), "convertBlock$") {
						continue
					}
					if _, isExpr := call.Call.Args[1].Type().Underlying().(*types.Interface); !isExpr {
						continue
					}
					n++
					sl := w.BackSlice(call.Call.Args[1], sliceOpt{})
					isNew := false
					for _, cv := range sl.Calls["mvdan.cc/garble/internal/asthelper.CallExprByName"] {
						if nm, ok := constString(cv.(*ssa.Call).Call.Args[0]); ok && nm == "new" {
							isNew = true
						}
					}
					isNamedResult := sl.Fields["funcConverter.namedResults"]
					if !isNew && !isNamedResult {
						bad = "the Alloc case at " + w.Pos(call.Pos()) + " defines the pointer from something other than new(T) or a recorded named result: storage declared once per function is not zeroed again when a loop body declares the variable anew"
					}
				}
			}
			if n == 0 {
				c.Undecided("R11.10", "convertBlock Alloc case", w.Pos(cbf.Pos()), "the Alloc case defines no variable")
			} else {
				c.Check(bad == "", "R11.10", "convertBlock Alloc case", w.Pos(cbf.Pos()), fmt.Sprintf("%d definitions: new(T) or named result", n), bad)
			}
		}
	} else {
		c.Undecided("R11.10", "convertBlock Alloc case", "", "convertBlock not found")
	}
}
