package main

import (
	"fmt"
	"go/token"
	"sort"
	"strings"

	"golang.org/x/tools/go/ssa"
)

// nameExit is one way obfuscatedObjectName can decide NOT to rename an object.
type nameExit struct {
	Class string // recognised reason, or "OTHER: ..." when the guard is not in the reviewed set
	Ret   *ssa.Return
}

// classifyFact recognises the guards of the documented naming exceptions.
func classifyNameFact(w *World, f condFact) string {
	nf := normFact(f)
	sl := w.BackSlice(nf.V, sliceOpt{})
	switch x := nf.V.(type) {
	case *ssa.BinOp:
		if v, nonNil, ok := nilTest(x); ok && nf.Outcome != nonNil {
			if call, isCall := v.(*ssa.Call); isCall && calleeName(call) == "(go/types.Object).Pkg" {
				return "universe scope (no package)"
			}
		}
		if x.Op == token.EQL && nf.Outcome {
			if s, ok := constString(x.Y); ok {
				switch s {
				case "align64":
					return "sync/atomic align64"
				case "FS":
					return "embed.FS"
				case "Method", "MethodByName":
					return "reflect.Method / MethodByName"
				case "main", "init", "TestMain":
					return "main / init / TestMain"
				}
			}
		}
	case *ssa.Call:
		n := calleeName(x)
		switch {
		case n == "strings.HasSuffix" && nf.Outcome:
			if s, ok := constString(x.Call.Args[1]); ok && s == "SET" {
				return "crypto/x509/pkix *SET types"
			}
		case n == "strings.HasPrefix" && nf.Outcome:
			if s, ok := constString(x.Call.Args[1]); ok && s == "Test" {
				return "Test* with a test signature"
			}
		case n == "mvdan.cc/garble.isTestSignature" && nf.Outcome:
			return "Test* with a test signature"
		case n == "(*go/types.Signature).Recv" || n == "(*go/types.object).Exported" || n == "(*go/types.Func).Exported":
			return "exported method"
		}
	case *ssa.Lookup:
		if sl.Globals["main.compilerIntrinsics"] && nf.Outcome {
			return "compiler intrinsic"
		}
	case *ssa.UnOp:
		if p, ok := toObfuscateOf(nf.V); ok && !nf.Outcome {
			_ = p
			return "package not selected (ToObfuscate false)"
		}
	}
	if nf.Outcome {
		if v, nonNil, ok := nilTest(nf.V); ok && nonNil {
			if w.BackSlice(v, sliceOpt{}).HasCall("(*go/types.Signature).Recv") {
				return "exported method"
			}
		}
	}
	return ""
}

// neutralNameFact: conditions that only say which arm we are in or that an
// earlier special case did not apply; they never decide to keep a name.
func neutralNameFact(f condFact) bool {
	nf := normFact(f)
	switch x := nf.V.(type) {
	case *ssa.Extract:
		if _, ok := x.Tuple.(*ssa.TypeAssert); ok {
			return true
		}
	case *ssa.BinOp:
		if _, _, isNil := nilTest(x); isNil {
			return true // err != nil, pkg != nil ...
		}
		if _, ok := constString(x.Y); ok && x.Op == token.EQL {
			// a package path selecting a group of special cases (true), or a case that did not match (false)
			if call, ok := x.X.(*ssa.Call); ok && calleeName(call) == "(*go/types.Package).Path" {
				return true
			}
			return !nf.Outcome
		}
	case *ssa.Call:
		n := calleeName(x)
		if n == "(*go/types.Var).IsField" {
			return true
		}
		return !nf.Outcome // HasPrefix/HasSuffix/... that did not match
	case *ssa.Lookup:
		return !nf.Outcome
	case *ssa.UnOp:
		if _, ok := toObfuscateOf(nf.V); ok && nf.Outcome {
			return true
		}
	}
	return false
}

// objectNameExits lists the "keep the name" exits of obfuscatedObjectName.
func objectNameExits(w *World) ([]nameExit, error) {
	fn := w.Fn("(*transformer).obfuscatedObjectName")
	if fn == nil {
		return nil, fmt.Errorf("obfuscatedObjectName not found")
	}
	var out []nameExit
	for _, r := range returnsOf(fn) {
		res := retResults(r)
		if len(res) != 2 {
			continue
		}
		if b, ok := constBool(res[1]); !ok || b {
			continue
		}
		// the reason for reaching this return: first the conditions on its incoming
		// edges (a "case A, B:" body has several), then the dominating facts, innermost first
		class := ""
		var descs []string
		var conds []condFact
		for _, p := range r.Block().Preds {
			if iff := ifOf(p); iff != nil {
				conds = append(conds, condFact{iff.Cond, p.Succs[0] == r.Block()})
			}
		}
		conds = append(conds, edgeFacts(r.Block())...)
		for _, f := range conds {
			if c := classifyNameFact(w, f); c != "" {
				class = c
				break
			}
			if neutralNameFact(f) {
				continue
			}
			// the innermost deciding condition is not one of the documented exceptions
			descs = append(descs, fmt.Sprintf("%s=%v", condDesc(f.V), f.Outcome))
			break
		}
		if class == "" && len(descs) > 0 {
			class = "OTHER: " + strings.Join(descs, " && ")
		}
		if class == "" {
			// the default arm of the type switch on the object's kind: every assert failed
			for _, f := range conds {
				if ex, ok := f.V.(*ssa.Extract); ok && !f.Outcome {
					if _, isTA := ex.Tuple.(*ssa.TypeAssert); isTA {
						class = "not a variable, type or function"
					}
				}
			}
		}
		if class == "" {
			class = "OTHER: " + strings.Join(descs, " && ")
		}
		// multi-name cases must list every name
		need := map[string][]string{
			"main / init / TestMain":        {"main", "init", "TestMain"},
			"reflect.Method / MethodByName": {"Method", "MethodByName"},
		}[class]
		if need != nil {
			have := map[string]bool{}
			for _, p := range r.Block().Preds {
				if iff := ifOf(p); iff != nil {
					if bo, ok := iff.Cond.(*ssa.BinOp); ok && bo.Op == token.EQL && p.Succs[0] == r.Block() {
						if s, ok := constString(bo.Y); ok {
							have[s] = true
						}
					}
				}
			}
			var miss []string
			for _, n := range need {
				if !have[n] {
					miss = append(miss, n)
				}
			}
			if len(miss) > 0 {
				class += " (incomplete: " + strings.Join(miss, ", ") + " missing)"
			}
		}
		// the exceptions that belong to one standard-library package must be tied to its
		// import path: a user package that merely shares the name must not inherit them
		if allowed := exceptionPackages[class]; allowed != nil {
			paths := pathsGuarding(fn, r.Block())
			var wrong []string
			for _, p := range paths {
				if !allowed[p] {
					wrong = append(wrong, p)
				}
			}
			switch {
			case len(paths) == 0:
				class += " (not restricted by import path: any package with such a name keeps it)"
			case len(wrong) > 0:
				class += " (also applied to " + strings.Join(wrong, ", ") + ")"
			}
		}
		out = append(out, nameExit{Class: class, Ret: r})
	}
	return out, nil
}

// exceptionPackages: the import paths each package-specific exception is documented for.
var exceptionPackages = map[string]map[string]bool{
	"sync/atomic align64":           {"sync/atomic": true, "runtime/internal/atomic": true, "internal/runtime/atomic": true},
	"embed.FS":                      {"embed": true},
	"reflect.Method / MethodByName": {"reflect": true},
	"crypto/x509/pkix *SET types":   {"crypto/x509/pkix": true},
}

// pathsGuarding lists the constants K such that the true edge of a test
// "<pkg>.Path() == K" leads to block b. Case bodies of a switch are disjoint, so for a
// block inside a body these are exactly the import paths the body runs for.
func pathsGuarding(fn *ssa.Function, b *ssa.BasicBlock) []string {
	set := map[string]bool{}
	for _, blk := range fn.Blocks {
		iff := ifOf(blk)
		if iff == nil {
			continue
		}
		bo, ok := iff.Cond.(*ssa.BinOp)
		if !ok || bo.Op != token.EQL {
			continue
		}
		call, ok := bo.X.(*ssa.Call)
		if !ok || calleeName(call) != "(*go/types.Package).Path" {
			continue
		}
		k, ok := constString(bo.Y)
		if !ok {
			continue
		}
		if blk.Succs[0] == b || reachableAvoiding(blk.Succs[0], nil)[b] {
			// only if b is not also reachable when the test fails for every K: that is
			// the case for blocks after the switch, which are not package-specific
			set[k] = true
		}
	}
	return sortedKeys(set)
}

// requiredNameExceptions: the documented exceptions that must all be present (floor).
var requiredNameExceptions = []string{
	"universe scope (no package)", "sync/atomic align64", "embed.FS", "reflect.Method / MethodByName", "crypto/x509/pkix *SET types",
	"package not selected (ToObfuscate false)", "compiler intrinsic", "exported method", "main / init / TestMain", "Test* with a test signature",
	"not a variable, type or function",
}

func exitClasses(exits []nameExit) []string {
	m := map[string]bool{}
	for _, e := range exits {
		m[e.Class] = true
	}
	out := sortedKeys(m)
	sort.Strings(out)
	return out
}

// ruleNoNewNameExemption is R02.8 (first half): the exits of obfuscatedObjectName that keep a
// name are exactly the documented exceptions, each in its documented extent. Shared by
// C02 (a wider exception leaves names in the binary) and C15 (an exception that depends on
// the declaring package bypasses the struct-identity salt: identical structs in two
// packages get different field names).
func ruleNoNewNameExemption(c *Ctx) {
	w := c.W
	c.Rule("R02.8", "no exemption beyond the documented ones keeps an identifier", 11)
	exits, err := objectNameExits(w)
	if err != nil {
		c.Undecided("R02.8", "obfuscatedObjectName", "", err.Error())
	}
	seen := map[string]int{}
	for _, e := range exits {
		seen[e.Class]++
		key := fmt.Sprintf("obfuscatedObjectName exit: %s #%d", e.Class, seen[e.Class])
		switch {
		case strings.HasPrefix(e.Class, "OTHER"):
			key = fmt.Sprintf("obfuscatedObjectName undocumented exit #%d", seen[e.Class])
			c.Bad("R02.8", key, w.Pos(e.Ret.Pos()), "obfuscatedObjectName keeps a name for a reason that is not one of the documented exceptions ("+strings.TrimPrefix(e.Class, "OTHER: ")+"): those identifiers appear in the binary")
		case strings.Contains(e.Class, " (not restricted by import path") || strings.Contains(e.Class, " (also applied to "):
			c.Bad("R02.8", key, w.Pos(e.Ret.Pos()), "a documented exception is applied beyond the package it is documented for: names (and struct fields, which are matched by bare name before the field branch) of unrelated packages are kept, so they appear in the binary and identical structs declared elsewhere get different field names")
		default:
			c.OK("R02.8", key, w.Pos(e.Ret.Pos()), "documented exception")
		}
	}
}
