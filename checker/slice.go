package main

import (
	"go/token"
	"go/types"
	"sort"
	"strings"

	"golang.org/x/tools/go/ssa"
)

// Slice is the result of a backward data-dependence walk from a value:
// everything the value may be computed from, over SSA def-use chains, through
// locals, closures' free variables, phi nodes, struct fields and (optionally)
// module function calls. No control dependence.
type Slice struct {
	w        *World
	Consts   map[string]bool         // string and integer constants (exact strings)
	Calls    map[string][]ssa.Value  // resolved callee name -> call values
	Globals  map[string]bool         // package-level variables read: "pkg.Name"
	Fields   map[string]bool         // field reads as access paths: "sharedCache.CacheDir", "listedPackage.ImportPath"
	Params   map[*ssa.Parameter]bool // parameters reached and not followed further
	Values   map[ssa.Value]bool      // every value visited
	Dynamic  []ssa.Value             // dynamic calls (function values) reached
	Cut      bool                    // depth limit hit somewhere
	maxDepth int
	calls    bool
	callers  bool
	rootOnly bool
	stopG    map[string]bool
	stopF    map[string]bool
	spec     *Specialised
}

type sliceOpt struct {
	Depth       int  // interprocedural depth (into callees / out to callers)
	IntoCallees bool // follow results of module functions into their return operands
	ToCallers   bool // follow parameters to the arguments at every call site
	// RootOnly follows only the operand that determines the *root* of a file
	// path: the first argument of filepath.Join, the left operand of a string
	// concatenation, the argument of Abs/Clean/Dir/EvalSymlinks.
	RootOnly bool
	// StopGlobals / StopFields are leaves: recorded, not traced further.
	StopGlobals []string
	StopFields  []string
	// Spec restricts phi nodes of Spec.Fn to their live incoming edges.
	Spec *Specialised
}

func (w *World) BackSlice(v ssa.Value, opt sliceOpt) *Slice {
	s := &Slice{w: w, Consts: map[string]bool{}, Calls: map[string][]ssa.Value{}, Globals: map[string]bool{}, Fields: map[string]bool{},
		Params: map[*ssa.Parameter]bool{}, Values: map[ssa.Value]bool{}, maxDepth: opt.Depth, calls: opt.IntoCallees, callers: opt.ToCallers,
		rootOnly: opt.RootOnly, stopG: map[string]bool{}, stopF: map[string]bool{}, spec: opt.Spec}
	for _, g := range opt.StopGlobals {
		s.stopG[g] = true
	}
	for _, f := range opt.StopFields {
		s.stopF[f] = true
	}
	s.visit(v, 0)
	return s
}

func (s *Slice) HasCall(names ...string) bool {
	for _, n := range names {
		if len(s.Calls[n]) > 0 {
			return true
		}
	}
	return false
}

func (s *Slice) HasCallPrefix(prefix string) bool {
	for n := range s.Calls {
		if strings.HasPrefix(n, prefix) {
			return true
		}
	}
	return false
}

func (s *Slice) CallNames() []string {
	var out []string
	for n := range s.Calls {
		out = append(out, n)
	}
	sort.Strings(out)
	return out
}

func (s *Slice) Summary() string {
	var parts []string
	for _, n := range s.CallNames() {
		parts = append(parts, "call:"+n)
	}
	for _, n := range sortedKeys(s.Globals) {
		parts = append(parts, "global:"+n)
	}
	for _, n := range sortedKeys(s.Fields) {
		parts = append(parts, "field:"+n)
	}
	for _, n := range sortedKeys(s.Consts) {
		parts = append(parts, "const:"+n)
	}
	return strings.Join(parts, " ")
}

func globalName(g *ssa.Global) string {
	if g.Pkg != nil {
		return shortPkgName(g.Pkg.Pkg.Path()) + "." + g.Name()
	}
	return g.Name()
}

func shortPkgName(path string) string {
	if path == modulePath {
		return "main"
	}
	return shortPkg(path)
}

func namedOf(t types.Type) string {
	for {
		switch x := t.(type) {
		case *types.Pointer:
			t = x.Elem()
			continue
		case *types.Alias:
			t = types.Unalias(x)
			continue
		case *types.Named:
			return x.Obj().Name()
		}
		return ""
	}
}

func (s *Slice) visit(v ssa.Value, depth int) {
	if v == nil || s.Values[v] {
		return
	}
	s.Values[v] = true
	switch x := v.(type) {
	case *ssa.Const:
		if x.Value != nil {
			s.Consts[x.Value.ExactString()] = true
		}
	case *ssa.Global:
		s.Globals[globalName(x)] = true
		if s.stopG[globalName(x)] {
			return
		}
		// also the stores into the global made by the module (initialisers, assignments)
		s.visitGlobalStores(x, depth)
	case *ssa.Function, *ssa.Builtin:
	case *ssa.Parameter:
		if pf := x.Parent(); pf.Parent() != nil {
			// parameter of a function literal: its values come from whoever the
			// literal is handed to (callbacks, range-over-func iterators)
			handed := false
			for _, b := range pf.Parent().Blocks {
				for _, in := range b.Instrs {
					var clo ssa.Value
					if mc, ok := in.(*ssa.MakeClosure); ok && mc.Fn == ssa.Value(pf) {
						clo = mc
					}
					if clo == nil {
						continue
					}
					for _, r := range *clo.Referrers() {
						ci, ok := r.(ssa.CallInstruction)
						if !ok {
							continue
						}
						isArg := false
						for _, a := range ci.Common().Args {
							if a == clo {
								isArg = true
							}
						}
						if !isArg {
							continue
						}
						handed = true
						s.visit(ci.Common().Value, depth)
						for _, a := range ci.Common().Args {
							if a != clo {
								s.visit(a, depth)
							}
						}
					}
				}
			}
			if handed {
				return
			}
		}
		if s.callers && depth < s.maxDepth {
			fn := x.Parent()
			idx := -1
			for i, p := range fn.Params {
				if p == x {
					idx = i
				}
			}
			sites := s.w.CallsToFn(fn)
			if len(sites) == 0 || idx < 0 {
				s.Params[x] = true
			}
			for _, cs := range sites {
				args := cs.Instr.Common().Args
				if idx < len(args) {
					s.visit(args[idx], depth+1)
				}
			}
		} else {
			if s.callers {
				s.Cut = true
			}
			s.Params[x] = true
		}
	case *ssa.FreeVar:
		// bound at the MakeClosure sites of the enclosing function
		fn := x.Parent()
		idx := -1
		for i, fv := range fn.FreeVars {
			if fv == x {
				idx = i
			}
		}
		if p := fn.Parent(); p != nil && idx >= 0 {
			for _, b := range p.Blocks {
				for _, in := range b.Instrs {
					if mc, ok := in.(*ssa.MakeClosure); ok && mc.Fn == ssa.Value(fn) && idx < len(mc.Bindings) {
						s.visit(mc.Bindings[idx], depth)
					}
				}
			}
		}
	case *ssa.Alloc:
		s.visitStoresTo(x, depth)
	case *ssa.Phi:
		for i, e := range x.Edges {
			if s.spec != nil && x.Parent() == s.spec.Fn {
				pred, live := x.Block().Preds[i], false
				for si, sc := range pred.Succs {
					if sc == x.Block() && s.spec.Edge[cfgEdge{pred, si}] {
						live = true
					}
				}
				if !live {
					continue
				}
			}
			s.visit(e, depth)
		}
	case *ssa.UnOp:
		if x.Op == token.MUL {
			s.visitLoad(x.X, depth)
		} else {
			s.visit(x.X, depth)
		}
	case *ssa.BinOp:
		s.visit(x.X, depth)
		if s.rootOnly && x.Op == token.ADD {
			return
		}
		s.visit(x.Y, depth)
	case *ssa.Extract:
		s.visit(x.Tuple, depth)
	case *ssa.Call:
		s.visitCall(x, depth)
	case *ssa.ChangeType:
		s.visit(x.X, depth)
	case *ssa.Convert:
		s.visit(x.X, depth)
	case *ssa.MakeInterface:
		s.visit(x.X, depth)
	case *ssa.ChangeInterface:
		s.visit(x.X, depth)
	case *ssa.TypeAssert:
		s.visit(x.X, depth)
	case *ssa.Slice:
		s.visit(x.X, depth)
		s.visit(x.Low, depth)
		s.visit(x.High, depth)
	case *ssa.SliceToArrayPointer:
		s.visit(x.X, depth)
	case *ssa.Field:
		fn := namedOf(x.X.Type()) + "." + fieldName(x.X.Type(), x.Field)
		s.Fields[fn] = true
		if !s.stopF[fn] {
			s.visit(x.X, depth)
		}
	case *ssa.FieldAddr:
		fn := namedOf(x.X.Type()) + "." + fieldName(x.X.Type(), x.Field)
		s.Fields[fn] = true
		if !s.stopF[fn] {
			s.visit(x.X, depth)
		}
	case *ssa.Index:
		s.visit(x.X, depth)
		s.visit(x.Index, depth)
	case *ssa.IndexAddr:
		s.visit(x.X, depth)
		s.visit(x.Index, depth)
		// elements stored through other IndexAddr of the same base
		s.visitElementStores(x.X, depth)
	case *ssa.Lookup:
		s.visit(x.X, depth)
		s.visit(x.Index, depth)
	case *ssa.MakeClosure:
		for _, b := range x.Bindings {
			s.visit(b, depth)
		}
	case *ssa.Range:
		s.visit(x.X, depth)
	case *ssa.Next:
		s.visit(x.Iter, depth)
	case *ssa.MakeSlice, *ssa.MakeMap, *ssa.MakeChan:
		// contents arrive through stores / map updates on the value
		s.visitMapUpdates(v, depth)
	}
}

// visitLoad handles "*addr".
func (s *Slice) visitLoad(addr ssa.Value, depth int) {
	switch a := addr.(type) {
	case *ssa.Global:
		s.visit(a, depth)
	case *ssa.FieldAddr:
		s.visit(a, depth)
		if s.stopF[namedOf(a.X.Type())+"."+fieldName(a.X.Type(), a.Field)] {
			return
		}
		// stores to the same field of the same base value in this function
		s.visitFieldStores(a, depth)
	case *ssa.IndexAddr:
		s.visit(a, depth)
	default:
		s.visit(addr, depth)
	}
}

func (s *Slice) visitStoresTo(addr ssa.Value, depth int) {
	refs := addr.Referrers()
	if refs == nil {
		return
	}
	for _, r := range *refs {
		switch st := r.(type) {
		case *ssa.Store:
			if st.Addr == addr {
				s.visit(st.Val, depth)
			}
		case *ssa.MakeClosure:
			// the closure may store into the captured variable
			fn, _ := st.Fn.(*ssa.Function)
			if fn == nil {
				continue
			}
			for i, b := range st.Bindings {
				if b == addr && i < len(fn.FreeVars) {
					s.visitStoresTo(fn.FreeVars[i], depth)
				}
			}
		case *ssa.IndexAddr:
			// array alloc: element stores
			if st.X == addr {
				s.visitStoresTo(st, depth)
			}
		case *ssa.FieldAddr:
			if st.X == addr {
				s.visitStoresTo(st, depth)
			}
		case *ssa.Slice:
			// "buf[:0]" handed to a callee that fills it (hash.Sum, append-style APIs)
			if st.X != addr || st.Referrers() == nil {
				continue
			}
			for _, q := range *st.Referrers() {
				ci, ok := q.(ssa.CallInstruction)
				if !ok {
					continue
				}
				if n := calleeName(ci); n != "" {
					if v, ok := ci.(ssa.Value); ok {
						s.Calls[n] = append(s.Calls[n], v)
					}
				}
				if ci.Common().IsInvoke() {
					s.visit(ci.Common().Value, depth)
				}
				for _, a := range ci.Common().Args {
					if a != ssa.Value(st) {
						s.visit(a, depth)
					}
				}
			}
		case ssa.CallInstruction:
			// the address is handed to a callee (pointer receiver or argument):
			// whatever else the call receives may end up behind the pointer
			if _, isAlloc := addr.(*ssa.Alloc); !isAlloc {
				continue
			}
			cc := st.Common()
			passed := false
			for _, a := range cc.Args {
				if a == addr {
					passed = true
				}
			}
			if !passed {
				continue
			}
			if n := calleeName(st); n != "" {
				if v, ok := st.(ssa.Value); ok {
					s.Calls[n] = append(s.Calls[n], v)
				} else {
					s.Calls[n] = append(s.Calls[n], nil)
				}
			}
			for _, a := range cc.Args {
				if a != addr {
					s.visit(a, depth)
				}
			}
		}
	}
}

func (s *Slice) visitFieldStores(fa *ssa.FieldAddr, depth int) {
	fn := fa.Parent()
	if fn == nil {
		return
	}
	for _, b := range fn.Blocks {
		for _, in := range b.Instrs {
			st, ok := in.(*ssa.Store)
			if !ok {
				continue
			}
			if o, ok := st.Addr.(*ssa.FieldAddr); ok && o.Field == fa.Field && sameBase(o.X, fa.X) {
				s.visit(st.Val, depth)
			}
		}
	}
}

func sameBase(a, b ssa.Value) bool {
	if a == b {
		return true
	}
	ua, oka := a.(*ssa.UnOp)
	ub, okb := b.(*ssa.UnOp)
	if oka && okb && ua.Op == token.MUL && ub.Op == token.MUL {
		return sameBase(ua.X, ub.X)
	}
	fa, oka := a.(*ssa.FieldAddr)
	fb, okb := b.(*ssa.FieldAddr)
	if oka && okb && fa.Field == fb.Field {
		return sameBase(fa.X, fb.X)
	}
	return false
}

func (s *Slice) visitElementStores(base ssa.Value, depth int) {
	refs := base.Referrers()
	if refs == nil {
		return
	}
	for _, r := range *refs {
		if ia, ok := r.(*ssa.IndexAddr); ok && ia.X == base {
			if rr := ia.Referrers(); rr != nil {
				for _, q := range *rr {
					if st, ok := q.(*ssa.Store); ok && st.Addr == ssa.Value(ia) {
						s.visit(st.Val, depth)
					}
				}
			}
		}
	}
}

func (s *Slice) visitMapUpdates(m ssa.Value, depth int) {
	refs := m.Referrers()
	if refs == nil {
		return
	}
	for _, r := range *refs {
		if mu, ok := r.(*ssa.MapUpdate); ok && mu.Map == m {
			s.visit(mu.Key, depth)
			s.visit(mu.Value, depth)
		}
	}
}

func (s *Slice) visitGlobalStores(g *ssa.Global, depth int) {
	if g.Pkg == nil || s.w.SSA[g.Pkg.Pkg.Path()] == nil {
		return
	}
	if depth >= s.maxDepth {
		return
	}
	s.w.forEachInstr(func(fn *ssa.Function, in ssa.Instruction) {
		if st, ok := in.(*ssa.Store); ok && st.Addr == ssa.Value(g) {
			s.visit(st.Val, depth+1)
		}
	})
}

func (s *Slice) visitCall(c *ssa.Call, depth int) {
	name := calleeName(c)
	cc := c.Common()
	if name == "" {
		s.Dynamic = append(s.Dynamic, c)
		s.visit(cc.Value, depth)
		for _, a := range cc.Args {
			s.visit(a, depth)
		}
		return
	}
	s.Calls[name] = append(s.Calls[name], c)
	if cc.IsInvoke() {
		s.visit(cc.Value, depth)
	}
	if s.rootOnly {
		switch name {
		case "path/filepath.Join", "path.Join":
			// only the first element of the variadic slice determines the root
			if first := variadicElems(cc.Args[0]); len(first) > 0 {
				s.visit(first[0], depth)
				return
			}
		case "path/filepath.Abs", "path/filepath.Clean", "path/filepath.Dir", "path/filepath.EvalSymlinks", "path/filepath.FromSlash", "path/filepath.ToSlash":
			s.visit(cc.Args[0], depth)
			return
		case "(*os.File).Name":
			s.visit(cc.Args[0], depth)
			return
		case "os.CreateTemp", "os.MkdirTemp":
			s.visit(cc.Args[0], depth)
			return
		}
	}
	fn := cc.StaticCallee()
	into := fn != nil && s.calls && len(fn.Blocks) > 0 && fn.Pkg != nil && s.w.SSA[fn.Pkg.Pkg.Path()] != nil
	if into && depth >= s.maxDepth {
		s.Cut = true
		into = false
	}
	if !into {
		for _, a := range cc.Args {
			s.visit(a, depth)
		}
		return
	}
	// Follow the callee's results in a child slice and map the parameters it
	// reaches back to this call's arguments (one level of context sensitivity:
	// an argument the callee ignores is not a dependency).
	sub := &Slice{w: s.w, Consts: s.Consts, Calls: s.Calls, Globals: s.Globals, Fields: s.Fields,
		Params: map[*ssa.Parameter]bool{}, Values: map[ssa.Value]bool{}, maxDepth: s.maxDepth, calls: true, callers: false,
		rootOnly: s.rootOnly, stopG: s.stopG, stopF: s.stopF, spec: s.spec}
	for _, r := range returnsOf(fn) {
		for _, res := range retResults(r) {
			sub.visit(res, depth+1)
		}
		// which return executes is decided by the conditions dominating it
		for _, f := range edgeFacts(r.Block()) {
			sub.visit(f.V, depth+1)
		}
	}
	s.Dynamic = append(s.Dynamic, sub.Dynamic...)
	if sub.Cut {
		s.Cut = true
	}
	for v := range sub.Values {
		if _, isParam := v.(*ssa.Parameter); !isParam {
			s.Values[v] = true
		}
	}
	for p := range sub.Params {
		idx := -1
		for i, fp := range fn.Params {
			if fp == p {
				idx = i
			}
		}
		if idx >= 0 && idx < len(cc.Args) {
			s.visit(cc.Args[idx], depth)
		} else {
			s.Params[p] = true
		}
	}
}

// visitIn visits a value inside a callee without following its parameters
// back out (the arguments were already visited at the call).
func (s *Slice) visitIn(v ssa.Value, depth int) {
	saved := s.callers
	s.callers = false
	s.visit(v, depth)
	s.callers = saved
}

// variadicElems returns the elements of a variadic argument built in place
// ("new [n]T; &t[i] = v; slice t[:]"), in index order; nil if not of that shape.
func variadicElems(v ssa.Value) []ssa.Value {
	sl, ok := v.(*ssa.Slice)
	if !ok {
		return nil
	}
	al, ok := sl.X.(*ssa.Alloc)
	if !ok || al.Referrers() == nil {
		return nil
	}
	elems := map[int64]ssa.Value{}
	max := int64(-1)
	for _, r := range *al.Referrers() {
		ia, ok := r.(*ssa.IndexAddr)
		if !ok {
			continue
		}
		idx, ok := constInt(ia.Index)
		if !ok || ia.Referrers() == nil {
			return nil
		}
		for _, q := range *ia.Referrers() {
			if st, ok := q.(*ssa.Store); ok && st.Addr == ssa.Value(ia) {
				elems[idx] = st.Val
				if idx > max {
					max = idx
				}
			}
		}
	}
	out := make([]ssa.Value, 0, max+1)
	for i := int64(0); i <= max; i++ {
		if elems[i] == nil {
			return nil
		}
		out = append(out, elems[i])
	}
	return out
}
