package main

import (
	"fmt"
	"go/ast"
	"go/token"
	"os"
	"path/filepath"
	"regexp"
	"sort"
	"strings"

	"golang.org/x/tools/go/ssa"
)

func init() {
	register(&propCheck{
		id: "C10",
		explain: "Decides the 'writer cut' behind '-tiny silences every crash': garble's strip table is read by interpreting the AST of stripRuntime for every (file, function) of the pinned toolchain's runtime package (type-checked from GOROOT source, SSA built); on the resulting graph — static calls, function values, closures; blocks behind constant-false conditions pruned; print/println builtins redirected — " +
			"(R10.1) the set W of non-emptied functions that can reach a write to file descriptor 2 contains no function that is entered from outside Go source (compiled code, assembly, linkname) other than the print primitives the program's own print/println need, and none of those primitives is emptied; " +
			"(R10.2) every function named in requiredDirectRuntimeStrips exists in that runtime file, stripRuntime runs for every runtime file under -tiny and the validation runs after the loop; " +
			"(R10.3) the redirect rewrites exactly print and println to the empty variadic hidePrint added to print.go; " +
			"(R10.4) the linker is told about -tiny through the environment variable its patch reads, compared with the same literal; " +
			"(R10.5) under -tiny positions carry no file name. " +
			"Assumes runtime assembly and runtime/cgo C code do not write to fd 2 themselves. Does not decide exit status, recover values or signals.",
		perConfig: checkC10repo,
		once:      checkC10goroot,
	})
}

var c10interp *stripInterp

func checkC10repo(c *Ctx) {
	w := c.W
	c.Rule("R10.3", "print/println are redirected to an empty variadic function added to print.go", 5)
	c.Rule("R10.4", "the linker learns about -tiny through the variable its patch reads", 2)
	c.Rule("R10.5", "under -tiny call positions carry no file name", 1)
	si, err := newStripInterp(w)
	if err != nil {
		c.Undecided("R10.3", "stripRuntime", "", err.Error())
		return
	}
	if c.Config == defaultConfig {
		c10interp = si
	}
	// R10.3: the stripPrints closure
	fl := si.closures["stripPrints"]
	okNames, target := false, ""
	if fl != nil {
		ast.Inspect(fl, func(n ast.Node) bool {
			sw, ok := n.(*ast.SwitchStmt)
			if !ok {
				return true
			}
			for _, cs := range sw.Body.List {
				cc := cs.(*ast.CaseClause)
				var names []string
				for _, e := range cc.List {
					if s, ok := si.strExpr(e, &stripEnv{}); ok {
						names = append(names, s)
					}
				}
				sort.Strings(names)
				if strings.Join(names, ",") == "print,println" {
					okNames = true
					for _, st := range cc.Body {
						if as, ok := st.(*ast.AssignStmt); ok && len(as.Rhs) == 1 {
							target, _ = si.strExpr(as.Rhs[0], &stripEnv{})
						}
					}
				} else if len(names) > 0 {
					okNames = false
				}
			}
			return true
		})
	}
	c.Check(okNames && target != "", "R10.3", "stripPrints rewrites exactly print and println", w.Pos(si.fn.Pos()), "to "+target,
		"the runtime's print/println calls are no longer (only) redirected: crash output survives, or other calls are broken")
	// hidePrintDecl: name, variadic interface parameter, empty body
	declName, variadic, empty := "", false, false
	for _, f := range w.Main.Syntax {
		for _, d := range f.Decls {
			gd, ok := d.(*ast.GenDecl)
			if !ok {
				continue
			}
			for _, sp := range gd.Specs {
				vs, ok := sp.(*ast.ValueSpec)
				if !ok || len(vs.Names) != 1 || vs.Names[0].Name != "hidePrintDecl" || len(vs.Values) != 1 {
					continue
				}
				ast.Inspect(vs.Values[0], func(n ast.Node) bool {
					switch x := n.(type) {
					case *ast.KeyValueExpr:
						k, _ := x.Key.(*ast.Ident)
						if k == nil {
							return true
						}
						switch k.Name {
						case "Name":
							if call, ok := x.Value.(*ast.CallExpr); ok && len(call.Args) == 1 {
								if s, ok := si.strExpr(call.Args[0], &stripEnv{}); ok && declName == "" {
									declName = s
								}
							}
						case "Body":
							if u, ok := x.Value.(*ast.UnaryExpr); ok {
								if cl, ok := u.X.(*ast.CompositeLit); ok && len(cl.Elts) == 0 {
									empty = true
								}
							}
						}
					case *ast.CompositeLit:
						if sel, ok := x.Type.(*ast.SelectorExpr); ok && sel.Sel.Name == "Ellipsis" {
							for _, el := range x.Elts {
								if kv, ok := el.(*ast.KeyValueExpr); ok {
									if u, ok := kv.Value.(*ast.UnaryExpr); ok {
										if cl, ok := u.X.(*ast.CompositeLit); ok {
											if s2, ok := cl.Type.(*ast.SelectorExpr); ok && s2.Sel.Name == "InterfaceType" {
												variadic = true
											}
										}
									}
								}
							}
						}
					}
					return true
				})
			}
		}
	}
	c.Check(declName == target && declName != "", "R10.3", "redirect target is the injected function", "", "print/println -> "+target+" = name of hidePrintDecl",
		fmt.Sprintf("print/println are renamed to %q but the function added to print.go is called %q: the runtime does not compile, or calls something else", target, declName))
	c.Check(variadic && empty, "R10.3", "hidePrintDecl is variadic over interface{} with an empty body", "", "func "+declName+"(args ...interface{}) {}",
		fmt.Sprintf("the injected function is not an empty variadic func (variadic interface: %v, empty body: %v)", variadic, empty))

	// R10.3 (traversal): the walk that renames the calls must reach every call of the file.
	// An ast.Inspect callback prunes the subtree it returns false for, so a false that is
	// not the one after a rename hides calls: function literals passed as arguments
	// (systemstack(func() { print(...) })), calls nested in operands, ...
	if sr := w.Fn("stripRuntime"); sr == nil {
		c.Undecided("R10.3", "stripPrints walk is total", "", "stripRuntime not found")
	} else {
		var walker *ssa.Function
		var rename *ssa.Store
		for _, af := range sr.AnonFuncs {
			for _, b := range af.Blocks {
				for _, in := range b.Instrs {
					st, ok := in.(*ssa.Store)
					if !ok {
						continue
					}
					fa, ok := st.Addr.(*ssa.FieldAddr)
					if !ok || namedOf(fa.X.Type()) != "Ident" || fieldName(fa.X.Type(), fa.Field) != "Name" {
						continue
					}
					if sv, ok := constString(st.Val); ok && sv == target {
						walker, rename = af, st
					}
				}
			}
		}
		if walker == nil {
			c.Undecided("R10.3", "stripPrints walk is total", w.Pos(sr.Pos()), "no closure of stripRuntime stores the redirect target into an identifier's name")
		} else {
			bad := ""
			for _, r := range returnsOf(walker) {
				res := retResults(r)
				if len(res) != 1 {
					continue
				}
				falseFrom := func(v ssa.Value, at *ssa.BasicBlock) {
					if b, ok := constBool(v); ok && !b && !rename.Block().Dominates(at) {
						bad = "the callback returns false at " + w.Pos(r.Pos()) + " without having renamed a print call there: the subtree below that node is never visited"
					} else if !ok {
						if _, isPhi := v.(*ssa.Phi); !isPhi {
							bad = "the callback's result at " + w.Pos(r.Pos()) + " is not a constant: cannot tell which subtrees are pruned"
						}
					}
				}
				if phi, ok := res[0].(*ssa.Phi); ok {
					for i, e := range phi.Edges {
						falseFrom(e, phi.Block().Preds[i])
					}
				} else {
					falseFrom(res[0], r.Block())
				}
			}
			c.Check(bad == "", "R10.3", "stripPrints walk is total", w.Pos(walker.Pos()), "returns false only after renaming a print call (whose operands hold no further prints to silence)", bad)
			// applied to the whole file on every path but the print.go one
			var insp *CallSite
			for _, cs := range w.CallsTo("go/ast.Inspect") {
				if cs.Fn != sr {
					continue
				}
				a0, a1 := cs.Args()[0], cs.Args()[1]
				if mi, ok := a0.(*ssa.MakeInterface); ok {
					a0 = mi.X
				}
				if ci, ok := a0.(*ssa.ChangeInterface); ok {
					a0 = ci.X
				}
				isFile := len(sr.Params) == 2 && a0 == ssa.Value(sr.Params[1])
				isWalker := false
				if mc, ok := a1.(*ssa.MakeClosure); ok && mc.Fn == ssa.Value(walker) {
					isWalker = true
				} else if f, ok := a1.(*ssa.Function); ok && f == walker {
					isWalker = true
				}
				if isFile && isWalker {
					cs := cs
					insp = &cs
				}
			}
			if insp == nil {
				c.Bad("R10.3", "stripPrints is applied to the whole file", w.Pos(sr.Pos()), "stripRuntime no longer calls ast.Inspect(file, stripPrints) on the file it was given")
			} else {
				bad := ""
				for _, r := range returnsOf(sr) {
					if dominatesInstr(insp.Instr, r) {
						continue
					}
					isPrintGo := false
					for _, f := range edgeFacts(r.Block()) {
						if bo, ok := f.V.(*ssa.BinOp); ok && f.Outcome && bo.Op == token.EQL {
							if sv, ok := constString(bo.Y); ok && sv == "print.go" {
								isPrintGo = true
							}
						}
					}
					if !isPrintGo {
						bad = "stripRuntime returns at " + w.Pos(r.Pos()) + " without having walked the file (and it is not the print.go exit, which must keep the real print)"
					}
				}
				c.Check(bad == "", "R10.3", "stripPrints is applied to the whole file", w.Pos(insp.Instr.Pos()), "ast.Inspect(file, stripPrints) dominates every return except the print.go one", bad)
			}
		}
	}

	// R10.4 ---------------------------------------------------------------
	me := w.Fn("mainErr")
	okEnv := false
	envName := ""
	if me != nil {
		for _, cs := range w.CallsTo("os.Setenv") {
			if cs.Fn != me {
				continue
			}
			sl := w.BackSlice(cs.Arg(0), sliceOpt{})
			isTiny := false
			for k := range sl.Consts {
				if strings.Contains(k, "TINY") {
					isTiny = true
					envName = strings.Trim(k, `"`)
				}
			}
			if !isTiny {
				continue
			}
			val, _ := constString(cs.Arg(1))
			under := false
			for _, f := range edgeFacts(cs.Instr.Block()) {
				if ld, ok := normFact(f).V.(*ssa.UnOp); ok && f.Outcome {
					if g, ok := ld.X.(*ssa.Global); ok && g.Name() == "flagTiny" {
						under = true
					}
				}
			}
			before := false
			for _, ex := range w.CallsTo("os/exec.Command") {
				if ex.Fn == me && reachableAvoiding(cs.Instr.Block(), nil)[ex.Instr.Block()] {
					before = true
				}
			}
			okEnv = under && before && val == "true"
		}
	}
	c.Check(okEnv, "R10.4", "mainErr sets the tiny variable for the linker", "", envName+"=true under flagTiny, before the linker is executed",
		"the patched linker is not told about -tiny (variable not set under flagTiny to \"true\" before the linker runs): unexported function names stay in the binary")
	okPatch := false
	patches, _ := filepath.Glob(filepath.Join(w.Repo, "internal", "linker", "patches", "*", "*.patch"))
	rx := regexp.MustCompile(`os\.Getenv\("` + regexp.QuoteMeta(envName) + `"\)\s*==\s*"true"`)
	for _, p := range patches {
		data, err := os.ReadFile(p)
		if err == nil && envName != "" && rx.Match(data) {
			okPatch = true
		}
	}
	c.Check(okPatch, "R10.4", "linker patch reads the same variable", "", "a patch compares os.Getenv(\""+envName+"\") with \"true\"",
		"no embedded linker patch reads "+envName+" and compares it with \"true\": the two sides of the -tiny hand-over disagree")

	// R10.5 ---------------------------------------------------------------
	okPos := false
	if pf := w.Fn("printFile"); pf != nil {
		for _, cs := range w.CallsToFn(w.Fn("hashWithPackage")) {
			if cs.Fn != pf {
				continue
			}
			for _, f := range edgeFacts(cs.Instr.Block()) {
				nf := normFact(f)
				if ld, ok := nf.V.(*ssa.UnOp); ok && !nf.Outcome {
					if g, ok := ld.X.(*ssa.Global); ok && g.Name() == "flagTiny" {
						okPos = true
					}
				}
			}
		}
	}
	c.Check(okPos, "R10.5", "printFile hashes positions only without -tiny", "", "the position name is computed under !flagTiny, else it stays empty",
		"with -tiny, call positions still get a (hashed) file name: runtime.Caller and traces are not blank")

	// R10.2 (repo side): stripRuntime for every runtime file under flagTiny, validation after the loop
	c.Rule("R10.2", "strip rules run for every runtime file under -tiny and the required strips are validated and exist", 2)
	tc := w.Fn("(*transformer).transformCompile")
	okStrip, okValidate := false, false
	if tc != nil {
		for _, cs := range w.CallsTo("mvdan.cc/garble.stripRuntime") {
			if cs.Fn != tc {
				continue
			}
			tiny, rt := false, false
			for _, f := range edgeFacts(cs.Instr.Block()) {
				nf := normFact(f)
				if ld, ok := nf.V.(*ssa.UnOp); ok && nf.Outcome {
					if g, ok := ld.X.(*ssa.Global); ok && g.Name() == "flagTiny" {
						tiny = true
					}
				}
				if bo, ok := nf.V.(*ssa.BinOp); ok && nf.Outcome {
					if s, ok := constString(bo.Y); ok && s == "runtime" {
						rt = true
					}
				}
			}
			okStrip = tiny && rt && loopHeaderOf(cs.Instr.Block()) != nil
		}
		for _, cs := range w.CallsTo("mvdan.cc/garble.validateDirectRuntimeStripping") {
			if cs.Fn == tc && loopHeaderOf(cs.Instr.Block()) == nil {
				okValidate = true
			}
		}
	}
	c.Check(okStrip, "R10.2", "transformCompile strips every runtime file under -tiny", "", "stripRuntime is called in the per-file loop under ImportPath == \"runtime\" && flagTiny",
		"stripRuntime is no longer applied to every file of package runtime under -tiny")
	c.Check(okValidate, "R10.2", "required strips are validated after the loop", "", "validateDirectRuntimeStripping runs once all files were processed", "the validation of required runtime strips is gone or runs inside the loop")
}

func checkC10goroot(c *Ctx) {
	w := c.W
	si := c10interp
	if si == nil {
		return
	}
	c.Rule("R10.1", "no function entered from outside Go source, other than the print primitives, can reach a write to fd 2", 20)
	configs := []BuildConfig{{GOOS: "linux", GOARCH: "amd64"}}
	tags := []string{""}
	if c.Tier == "thorough" {
		configs = append(configs, BuildConfig{GOOS: "linux", GOARCH: "arm64"}, BuildConfig{GOOS: "windows", GOARCH: "amd64"}, BuildConfig{GOOS: "darwin", GOARCH: "arm64"})
		tags = append(tags, "debuglog")
	}
	first := true
	for _, goroot := range gorootsFor(c.Tier) {
		for _, cfg := range configs {
			for _, tag := range tags {
				cfg.Tags = tag
				gv := gorootName(goroot)
				label := gv + " " + cfg.String()
				suffix := ""
				if !first {
					suffix = " [" + label + "]"
				}
				rg, err := loadRuntimeGraph(goroot, cfg, si)
				if err != nil {
					c.Undecided("R10.1", "load runtime "+label, "", err.Error())
					continue
				}
				if si.undec != "" {
					c.Undecided("R10.1", "strip table"+suffix, "", si.undec)
					si.undec = ""
					continue
				}
				W := rg.writers()
				nEmptied := 0
				for _, rf := range rg.funcs {
					if rf.Emptied {
						nEmptied++
					}
				}
				c.Counts["runtime functions ("+label+")"] = len(rg.all)
				c.Counts["runtime functions emptied ("+label+")"] = nEmptied
				c.Counts["writers W ("+label+")"] = len(W)
				c.Counts["sinks write(2,...) ("+label+")"] = len(rg.sinks)
				if len(rg.sinks) == 0 {
					c.Bad("R10.1", "runtime sink"+suffix, "", "no write(2, ...) found in the runtime of "+label+": the rule no longer recognises how the runtime reaches stderr")
					continue
				}
				isFamily := func(rf *rtFunc) bool {
					return rf.File == "print.go" || strings.HasPrefix(rf.File, "write_err") || rg.sinks[rf.Fn] != ""
				}
				var names []*ssa.Function
				for fn := range W {
					names = append(names, fn)
				}
				sort.Slice(names, func(i, j int) bool { return names[i].String() < names[j].String() })
				for _, fn := range names {
					rf := rg.funcs[fn]
					if rf == nil {
						continue // closures: reported through their creators
					}
					key := "writer " + rf.File + ":" + fn.Name() + suffix
					pos := rg.g.Pos(fn.Pos())
					nCallers := len(rg.callers[fn])
					switch {
					case isFamily(rf):
						c.OK("R10.1", key, pos, "print primitive: needed by the program's own print/println")
					case nCallers > 0:
						// has Go callers: either they are live (then they are in W and judged themselves) or all emptied (dead code)
						liveCaller := false
						for cl := range rg.callers[fn] {
							if W[cl] {
								liveCaller = true
							}
						}
						if liveCaller {
							c.OK("R10.1", key, pos, "reached only through other writers, which are judged themselves")
						} else {
							c.OK("R10.1", key, pos, "dead after stripping: every caller is emptied")
						}
					default:
						c.BadPath("R10.1", key, pos, "with -tiny this runtime function still reaches a write to standard error and is entered from outside Go source (compiled code, assembly or linkname): a crash path prints", rg.chainTo(fn, W))
					}
				}
				// no print primitive may be emptied
				for _, rf := range rg.funcs {
					if rf.Emptied && isFamily(rf) && rf.Name != "hexdumpWords" {
						c.Bad("R10.1", "primitive "+rf.File+":"+rf.Name+suffix, rg.g.Pos(rf.Fn.Pos()), "a print primitive is emptied: the program's own print/println stop working under -tiny")
					}
				}
				// R10.2: required strips exist
				if first {
					req := requiredStrips(w)
					if len(req) == 0 {
						c.Undecided("R10.2", "requiredDirectRuntimeStrips", "", "table not found")
					}
					for _, r := range req {
						found, emptied := false, false
						for _, rf := range rg.funcs {
							if rf.File == r[0] && rf.Name == r[1] {
								found = true
								emptied = rf.Emptied
							}
						}
						c.Check(found && emptied, "R10.2", "required strip "+r[0]+":"+r[1], "", "exists in "+gv+"'s runtime and is emptied by the strip table",
							fmt.Sprintf("requiredDirectRuntimeStrips names %s:%s (exists: %v, emptied: %v): garble -tiny would panic for this toolchain, or the rule is missing", r[0], r[1], found, emptied))
					}
				}
				first = false
			}
		}
	}
}

// requiredStrips reads the requiredDirectRuntimeStrips table from syntax.
func requiredStrips(w *World) [][2]string {
	var out [][2]string
	for _, f := range w.Main.Syntax {
		for _, d := range f.Decls {
			gd, ok := d.(*ast.GenDecl)
			if !ok {
				continue
			}
			for _, sp := range gd.Specs {
				vs, ok := sp.(*ast.ValueSpec)
				if !ok || len(vs.Names) != 1 || vs.Names[0].Name != "requiredDirectRuntimeStrips" || len(vs.Values) != 1 {
					continue
				}
				cl, ok := vs.Values[0].(*ast.CompositeLit)
				if !ok {
					continue
				}
				for _, el := range cl.Elts {
					kv, ok := el.(*ast.KeyValueExpr)
					if !ok {
						continue
					}
					ktv := w.Main.TypesInfo.Types[kv.Key]
					inner, ok := kv.Value.(*ast.CompositeLit)
					if ktv.Value == nil || !ok {
						continue
					}
					for _, ie := range inner.Elts {
						if tv := w.Main.TypesInfo.Types[ie]; tv.Value != nil {
							out = append(out, [2]string{strings.Trim(ktv.Value.ExactString(), `"`), strings.Trim(tv.Value.ExactString(), `"`)})
						}
					}
				}
			}
		}
	}
	return out
}
