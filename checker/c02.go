package main

import (
	"fmt"
	"strings"

	"golang.org/x/tools/go/ssa"
)

func init() {
	register(&propCheck{
		id: "C02",
		explain: "Decides the must-pass-through and closed-set clauses behind 'the binary carries no original names, paths, positions or build metadata': " +
			"(R02.1) what transformLink returns on success depends on clearing -buildid, on -w, -s and on -X=runtime.buildVersion=unknown, and on the rewritten importcfg; " +
			"(R02.2) garbleBuildFlags contains -trimpath and -buildvcs=false and both the wrapped go command and garble's go list receive it; " +
			"(R02.3) every success return of transformCompile and of both assembler passes depends on alterTrimpath, whose value starts with the shared temp dir followed by \"=>;\"; " +
			"(R02.4) per-file pipeline: the bytes given to writeSourceFile come from printFile applied to transformGoFile's result; the package clause gets obfuscatedPackageName(); directives of the file's comments are transformed; -dwarf=false and the obfuscated -p are set; " +
			"(R02.5) printFile: the default //line header is written before any source bytes are copied; only //go: comments are kept, in both comment filters; every call identifier gets a /*line hash.go:1*/ directive; " +
			"(R02.6) the rewritten importcfg contains only importmap and packagefile lines; (R02.7) assembly files are given hashed names in both passes; " +
			"(R02.8) no new exemption: every 'keep the name' exit of obfuscatedObjectName and every 'leave the identifier alone' exit of the identifier visitor is one of the documented exceptions. " +
			"Does not decide what astutil.Apply and go/types reach, what the Go toolchain embeds, or the bytes of any binary.",
		perConfig: checkC02,
	})
}

func successResultSlice(w *World, fn *ssa.Function, nres int, each func(r *ssa.Return, sl *Slice)) int {
	n := 0
	for _, r := range returnsOf(fn) {
		res := retResults(r)
		if len(res) != nres || !isNilConst(res[nres-1]) {
			continue
		}
		n++
		each(r, w.BackSlice(res[0], sliceOpt{Depth: 2, IntoCallees: true}))
	}
	return n
}

// dominatingCall: is there a call to callee (optionally with a constant argument) that
// dominates ret and whose result is part of what ret returns?
func dominatingCall(w *World, fn *ssa.Function, ret *ssa.Return, callee string, constArg string) bool {
	res := retResults(ret)
	sl := w.BackSlice(res[0], sliceOpt{})
	for _, cs := range w.CallsTo(callee) {
		if cs.Fn != fn || !dominatesInstr(cs.Instr, ret) {
			continue
		}
		v, ok := cs.Instr.(ssa.Value)
		if !ok || !sl.Values[v] {
			continue
		}
		if constArg == "" {
			return true
		}
		for _, a := range cs.Args() {
			if w.BackSlice(a, sliceOpt{}).Consts[constArg] {
				return true
			}
		}
	}
	return false
}

func checkC02(c *Ctx) {
	w := c.W
	// R02.1 ---------------------------------------------------------------
	c.Rule("R02.1", "the linker command line strips build id, DWARF, symbol table and Go version", 5)
	if tl := w.Fn("(*transformer).transformLink"); tl == nil {
		c.Undecided("R02.1", "transformLink", "", "anchor function not found")
	} else {
		n := successResultSlice(w, tl, 2, func(r *ssa.Return, sl *Slice) {
			pos := w.Pos(r.Pos())
			for _, want := range []struct{ k, what string }{
				{`"-buildid"`, "-buildid cleared (no build IDs)"}, {`"-w"`, "-w (no DWARF)"}, {`"-s"`, "-s (no symbol table)"},
				{`"-X=runtime.buildVersion=unknown"`, "Go version overridden"}, {`"-importcfg"`, "importcfg replaced by the rewritten one (drops modinfo)"},
			} {
				dom := dominatingCall(w, tl, r, "builtin.append", want.k) || dominatingCall(w, tl, r, "mvdan.cc/garble.flagSetValue", want.k)
				c.Check(sl.Consts[want.k] && dom, "R02.1", "transformLink result carries "+strings.Trim(want.k, `"`), pos, want.what,
					"the flags handed to the linker on success do not depend on "+want.k+": "+want.what+" is lost")
			}
			// -buildid is set to the empty string
			okEmpty := false
			for _, cv := range sl.Calls["mvdan.cc/garble.flagSetValue"] {
				call := cv.(*ssa.Call)
				if k, _ := constString(call.Call.Args[1]); k == "-buildid" {
					if v, ok := constString(call.Call.Args[2]); ok && v == "" {
						okEmpty = true
					}
				}
			}
			c.Check(okEmpty, "R02.1", "transformLink sets -buildid to empty", pos, "flagSetValue(flags, \"-buildid\", \"\")", "-buildid is not cleared")
		})
		if n == 0 {
			c.Bad("R02.1", "transformLink success return", w.Pos(tl.Pos()), "no success return found")
		}
	}

	// R02.2 ---------------------------------------------------------------
	c.Rule("R02.2", "-trimpath and -buildvcs=false reach the wrapped go command and garble's go list", 4)
	var flagConsts []string
	w.forEachInstr(func(fn *ssa.Function, in ssa.Instruction) {
		if st, ok := in.(*ssa.Store); ok {
			if g, ok := st.Addr.(*ssa.Global); ok && g.Name() == "garbleBuildFlags" {
				for k := range w.BackSlice(st.Val, sliceOpt{}).Consts {
					flagConsts = append(flagConsts, strings.Trim(k, `"`))
				}
			}
		}
	})
	for _, want := range []string{"-trimpath", "-buildvcs=false"} {
		c.Check(contains(flagConsts, want), "R02.2", "garbleBuildFlags contains "+want, "", "always passed", want+" is no longer among the flags garble always passes: source paths or VCS stamps end up in the binary")
	}
	for _, name := range []string{"toolexecCmd", "appendListedPackages"} {
		fn := w.Fn(name)
		ok := false
		if fn != nil {
			for _, cs := range w.CallsTo("os/exec.Command") {
				if cs.Fn == fn && len(cs.Args()) > 1 && w.BackSlice(cs.Args()[1], sliceOpt{}).Globals["main.garbleBuildFlags"] {
					ok = true
				}
			}
		}
		c.Check(ok, "R02.2", name+" passes garbleBuildFlags", "", "the go command line includes garbleBuildFlags", name+" runs the go command without garbleBuildFlags")
	}

	// R02.3 ---------------------------------------------------------------
	c.Rule("R02.3", "the temp dir is trimmed from every compile and assemble command", 4)
	for _, name := range []string{"(*transformer).transformCompile", "(*transformer).transformAsm"} {
		fn := w.Fn(name)
		if fn == nil {
			c.Undecided("R02.3", name, "", "function not found")
			continue
		}
		k := 0
		successResultSlice(w, fn, 2, func(r *ssa.Return, sl *Slice) {
			k++
			c.Check(sl.HasCall("mvdan.cc/garble.alterTrimpath") && dominatingCall(w, fn, r, "mvdan.cc/garble.alterTrimpath", ""), "R02.3", fmt.Sprintf("%s success return #%d goes through alterTrimpath", name, k), w.Pos(r.Pos()),
				"flags = alterTrimpath(flags)", "a tool command line is returned without the temp dir having been added to -trimpath: the path of garble's temp dir leaks into the object file")
		})
	}
	if at := w.Fn("alterTrimpath"); at != nil {
		ok := false
		for _, cs := range w.CallsTo("mvdan.cc/garble.flagSetValue") {
			if cs.Fn != at {
				continue
			}
			if k, _ := constString(cs.Args()[1]); k != "-trimpath" {
				continue
			}
			// value = sharedTempDir + "=>;" + old
			v := cs.Args()[2]
			if outer, ok1 := v.(*ssa.BinOp); ok1 {
				if inner, ok2 := outer.X.(*ssa.BinOp); ok2 {
					ld, isLd := inner.X.(*ssa.UnOp)
					sep, _ := constString(inner.Y)
					if isLd && sep == "=>;" {
						if g, isG := ld.X.(*ssa.Global); isG && g.Name() == "sharedTempDir" {
							ok = true
						}
					}
				}
			}
		}
		c.Check(ok, "R02.3", "alterTrimpath prepends sharedTempDir=>;", w.Pos(at.Pos()), "the temp dir comes first so that shorter prefixes cannot shadow it", "alterTrimpath no longer starts -trimpath with sharedTempDir+\"=>;\"")
	}

	// R02.4 ---------------------------------------------------------------
	c.Rule("R02.4", "every compiled file goes through transformDirectives, transformGoFile, the package rename and printFile", 6)
	if tc := w.Fn("(*transformer).transformCompile"); tc != nil {
		okWrite := false
		for _, cs := range w.CallsTo("(*mvdan.cc/garble.transformer).writeSourceFile") {
			if cs.Fn != tc {
				continue
			}
			sl := w.BackSlice(cs.Arg(2), sliceOpt{})
			if !sl.HasCall("mvdan.cc/garble.printFile") {
				continue
			}
			for _, pv := range sl.Calls["mvdan.cc/garble.printFile"] {
				if w.BackSlice(pv.(*ssa.Call).Call.Args[1], sliceOpt{}).HasCall("(*mvdan.cc/garble.transformer).transformGoFile") {
					okWrite = true
				}
			}
		}
		c.Check(okWrite, "R02.4", "written source = printFile(transformGoFile(file))", w.Pos(tc.Pos()), "the compiler only sees printed, transformed files", "a source file reaches the compiler without having gone through transformGoFile and printFile")
		okPkg := false
		for _, b := range tc.Blocks {
			for _, in := range b.Instrs {
				if st, ok := in.(*ssa.Store); ok {
					if fa, ok := st.Addr.(*ssa.FieldAddr); ok && namedOf(fa.X.Type()) == "Ident" && fieldName(fa.X.Type(), fa.Field) == "Name" {
						if w.BackSlice(st.Val, sliceOpt{}).HasCall("(*mvdan.cc/garble.listedPackage).obfuscatedPackageName") {
							okPkg = true
						}
					}
				}
			}
		}
		c.Check(okPkg, "R02.4", "package clause renamed", w.Pos(tc.Pos()), "file.Name.Name = curPkg.obfuscatedPackageName()", "the package clause keeps the original package name")
		okDir := false
		for _, cs := range w.CallsTo("(*mvdan.cc/garble.transformer).transformDirectives") {
			if cs.Fn == tc && w.BackSlice(cs.Arg(0), sliceOpt{}).Fields["File.Comments"] && loopHeaderOf(cs.Instr.Block()) != nil {
				okDir = true
			}
		}
		c.Check(okDir, "R02.4", "directives of every file are transformed", w.Pos(tc.Pos()), "transformDirectives(file.Comments) in the per-file loop", "//go:linkname and cgo directives are no longer rewritten for every file")
		k := 0
		successResultSlice(w, tc, 2, func(r *ssa.Return, sl *Slice) {
			k++
			c.Check(sl.Consts[`"-dwarf=false"`] && dominatingCall(w, tc, r, "builtin.append", `"-dwarf=false"`), "R02.4", fmt.Sprintf("transformCompile success return #%d sets -dwarf=false", k), w.Pos(r.Pos()), "no DWARF is generated", "-dwarf=false is not on the compiler command line")
			okP := false
			for _, cv := range sl.Calls["mvdan.cc/garble.flagSetValue"] {
				call := cv.(*ssa.Call)
				if kk, _ := constString(call.Call.Args[1]); kk == "-p" && w.BackSlice(call.Call.Args[2], sliceOpt{}).HasCall("(*mvdan.cc/garble.listedPackage).obfuscatedImportPath") {
					okP = true
				}
			}
			c.Check(okP, "R02.4", fmt.Sprintf("transformCompile success return #%d sets -p to the obfuscated path", k), w.Pos(r.Pos()), "flagSetValue(flags, \"-p\", obfuscatedImportPath())", "the compiler is given the original import path with -p")
			c.Check(sl.Consts[`"-importcfg"`], "R02.4", fmt.Sprintf("transformCompile success return #%d replaces -importcfg", k), w.Pos(r.Pos()), "rewritten importcfg", "the compiler gets the original importcfg")
		})
	}

	// R02.5 ---------------------------------------------------------------
	c.Rule("R02.5", "printFile: default //line header first; only //go: comments kept; call sites get line directives", 4)
	if pf := w.Fn("printFile"); pf != nil {
		var header ssa.Instruction
		var calls []ssa.Instruction
		for _, cs := range w.CallsTo("fmt.Fprintf") {
			if cs.Fn != pf {
				continue
			}
			f, _ := constString(cs.Args()[1])
			switch {
			case strings.HasPrefix(f, "//line "):
				header = cs.Instr
			case strings.Contains(f, "/*line "):
				calls = append(calls, cs.Instr)
			}
		}
		bad := ""
		if header == nil {
			bad = "the default \"//line :1\" header is gone"
		} else {
			for _, cs := range w.CallsTo("(*bytes.Buffer).Write") {
				if cs.Fn == pf && w.BackSlice(cs.Recv(), sliceOpt{}).Globals["main.printBuf2"] && !dominatesInstr(header, cs.Instr) {
					bad = "source bytes are copied at " + w.Pos(cs.Instr.Pos()) + " before the header is written"
				}
			}
		}
		c.Check(bad == "", "R02.5", "default //line header precedes all copied source", w.Pos(pf.Pos()), "every position not rewritten individually defaults to an empty file name", bad)
		c.Check(len(calls) == 1, "R02.5", "call identifiers get /*line*/ directives", w.Pos(pf.Pos()), "one Fprintf of \" /*line %s%s:1*/ \" in the identifier case", fmt.Sprintf("found %d /*line*/ writers", len(calls)))
		// comment filters
		nFilter := 0
		for _, cs := range w.CallsTo("strings.HasPrefix") {
			if cs.Fn != pf {
				continue
			}
			if s, ok := constString(cs.Args()[1]); ok && s == "//go:" {
				nFilter++
			}
		}
		c.Check(nFilter == 2, "R02.5", "both comment filters keep only //go: directives", w.Pos(pf.Pos()), "file.Comments filter and scanner filter", fmt.Sprintf("expected two //go: filters (AST comments and scanned comments), found %d: comments would survive into the compiled source", nFilter))
		// the AST filter keeps a comment only under HasPrefix true
		okKeep := false
		for _, b := range pf.Blocks {
			for _, in := range b.Instrs {
				if call, ok := in.(*ssa.Call); ok && calleeName(call) == "builtin.append" {
					if strings.Contains(call.Type().String(), "ast.Comment") && !strings.Contains(call.Type().String(), "CommentGroup") {
						for _, f := range edgeFacts(b) {
							if hp, ok := f.V.(*ssa.Call); ok && calleeName(hp) == "strings.HasPrefix" && f.Outcome {
								okKeep = true
							}
						}
					}
				}
			}
		}
		c.Check(okKeep, "R02.5", "comments are kept only under the //go: test", w.Pos(pf.Pos()), "append(newGroup.List, comment) under HasPrefix(comment.Text, \"//go:\")", "the comment filter appends comments without testing for the //go: prefix")
	} else {
		c.Undecided("R02.5", "printFile", "", "function not found")
	}

	// R02.6 ---------------------------------------------------------------
	c.Rule("R02.6", "the rewritten importcfg holds only importmap and packagefile lines", 2)
	if pic := w.Fn("(*transformer).processImportCfg"); pic != nil {
		allowed := map[string]bool{"importmap %s=%s\n": true, "packagefile %s=%s\n": true}
		for _, cs := range w.CallsTo("fmt.Fprintf", "fmt.Fprintln", "fmt.Fprint", "(*os.File).WriteString", "(*os.File).Write", "io.WriteString") {
			if cs.Fn != pic {
				continue
			}
			f, isConst := "", false
			if len(cs.Args()) > 1 {
				f, isConst = constString(cs.Args()[1])
			}
			c.Check(isConst && allowed[f], "R02.6", "importcfg line "+strings.TrimSpace(strings.Split(f+" ", " ")[0]), w.Pos(cs.Instr.Pos()), "one of the two reviewed formats",
				fmt.Sprintf("processImportCfg writes %q into the new importcfg: lines such as modinfo would carry module paths and versions into the binary", f))
		}
	}

	// R02.7 ---------------------------------------------------------------
	c.Rule("R02.7", "assembly files are compiled under hashed names in both passes", 2)
	nAsm := 0
	for _, cs := range w.CallsToFn(w.Fn("hashWithPackage")) {
		if w.FuncName(cs.Fn) != "(*transformer).transformAsm" {
			continue
		}
		v := cs.Instr.(ssa.Value)
		for _, r := range *v.Referrers() {
			if bo, ok := r.(*ssa.BinOp); ok {
				if s, _ := constString(bo.Y); s == ".s" && w.BackSlice(cs.Args()[1], sliceOpt{}).HasCall("path/filepath.Base") {
					nAsm++
					c.OK("R02.7", fmt.Sprintf("transformAsm hashed file name #%d", nAsm), w.Pos(cs.Instr.Pos()), "hashWithPackage(curPkg, filepath.Base(path)) + \".s\"")
				}
			}
		}
	}
	if nAsm < 2 {
		c.Bad("R02.7", "transformAsm hashed file names", "", fmt.Sprintf("expected both assembler passes to compute the hashed file name, found %d", nAsm))
	}

	// R02.8 ---------------------------------------------------------------
	ruleNoNewNameExemption(c)
	checkIdentVisitorExits(c, "R02.8")
	ruleMethodSignatureUnnamedOnly(c)
}

// checkIdentVisitorExits: transformGoFile's identifier callback may leave an
// identifier untouched only for the reviewed reasons.
func checkIdentVisitorExits(c *Ctx, rule string) {
	w := c.W
	pre := w.Fn("(*transformer).transformGoFile$1")
	if pre == nil {
		c.Undecided(rule, "transformGoFile identifier visitor", "", "closure not found")
		return
	}
	var rename *ssa.Call
	for _, cs := range w.CallsTo("(*mvdan.cc/garble.transformer).obfuscatedObjectName") {
		if cs.Fn == pre {
			rename, _ = cs.Instr.(*ssa.Call)
		}
	}
	if rename == nil {
		c.Bad(rule, "identifier visitor renames through obfuscatedObjectName", w.Pos(pre.Pos()), "the identifier visitor no longer asks obfuscatedObjectName")
		return
	}
	n := 0
	for _, r := range returnsOf(pre) {
		if dominatesInstr(rename, r) {
			continue // after the naming decision
		}
		// exits before the decision: classify by the incoming edge conditions
		var conds []condFact
		for _, p := range r.Block().Preds {
			if iff := ifOf(p); iff != nil {
				conds = append(conds, condFact{iff.Cond, p.Succs[0] == r.Block()})
			}
		}
		conds = append(conds, edgeFacts(r.Block())...)
		class := ""
		for _, f := range conds {
			nf := normFact(f)
			switch x := nf.V.(type) {
			case *ssa.Extract:
				if ta, ok := x.Tuple.(*ssa.TypeAssert); ok && !nf.Outcome && strings.HasSuffix(ta.AssertedType.String(), "ast.Ident") {
					class = "not an identifier"
				}
				if ta, ok := x.Tuple.(*ssa.TypeAssert); ok && strings.HasSuffix(ta.AssertedType.String(), "ast.File") {
					class = "package clause / no object"
				}
				if lk, ok := x.Tuple.(*ssa.Lookup); ok && lk.CommaOk {
					class = "package clause / no object"
				}
			case *ssa.BinOp:
				if s, ok := constString(x.Y); ok && s == "_" && nf.Outcome {
					class = "blank identifier"
				}
				if v, nonNil, ok := nilTest(x); ok && nf.Outcome != nonNil {
					if call, ok := v.(*ssa.Call); ok && calleeName(call) == "mvdan.cc/garble.namedType" {
						class = "embedded field of an unnamed type"
					}
				}
			}
			if class != "" {
				break
			}
		}
		n++
		if class == "" {
			var ds []string
			for _, f := range conds {
				ds = append(ds, fmt.Sprintf("%s=%v", condDesc(f.V), f.Outcome))
			}
			c.Bad(rule, fmt.Sprintf("identifier visitor undocumented skip #%d", n), w.Pos(r.Pos()), "an identifier is left untouched before the naming decision for an unreviewed reason: "+strings.Join(ds, " && "))
		} else {
			c.OK(rule, fmt.Sprintf("identifier visitor skip #%d: %s", n, class), w.Pos(r.Pos()), "reviewed")
		}
	}
}
