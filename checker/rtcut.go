package main

import (
	"fmt"
	"go/ast"
	"go/constant"
	"go/token"
	"go/types"
	"path/filepath"
	"sort"
	"strings"

	"golang.org/x/tools/go/packages"
	"golang.org/x/tools/go/ssa"
	"golang.org/x/tools/go/ssa/ssautil"
)

// E9 rtcut — garble's runtime strip table applied to the Go runtime's own source.

// stripInterp evaluates, for a (file base name, function name) pair, what
// stripRuntime's per-declaration code does, by interpreting its AST.
type stripInterp struct {
	w        *World
	pkg      *packages.Package
	fn       *ast.FuncDecl
	loopBody *ast.BlockStmt // body of "for _, decl := range file.Decls"
	declVar  string         // name of the *ast.FuncDecl variable
	closures map[string]*ast.FuncLit
	baseVar  string
	undec    string
}

type stripResult struct {
	Emptied  bool // Body.List = nil (or emptyBody)
	Replaced bool // Body replaced by a constant body
}

func newStripInterp(w *World) (*stripInterp, error) {
	var fd *ast.FuncDecl
	for _, f := range w.Main.Syntax {
		for _, d := range f.Decls {
			if x, ok := d.(*ast.FuncDecl); ok && x.Name.Name == "stripRuntime" && x.Recv == nil {
				fd = x
			}
		}
	}
	if fd == nil {
		return nil, fmt.Errorf("stripRuntime not found")
	}
	si := &stripInterp{w: w, pkg: w.Main, fn: fd, closures: map[string]*ast.FuncLit{}}
	if len(fd.Type.Params.List) < 2 {
		return nil, fmt.Errorf("stripRuntime has an unexpected signature")
	}
	si.baseVar = fd.Type.Params.List[0].Names[0].Name
	for _, st := range fd.Body.List {
		switch x := st.(type) {
		case *ast.AssignStmt:
			if len(x.Lhs) == 1 && len(x.Rhs) == 1 {
				if id, ok := x.Lhs[0].(*ast.Ident); ok {
					if fl, ok := x.Rhs[0].(*ast.FuncLit); ok {
						si.closures[id.Name] = fl
					}
				}
			}
		case *ast.RangeStmt:
			if sel, ok := x.X.(*ast.SelectorExpr); ok && sel.Sel.Name == "Decls" {
				si.loopBody = x.Body
			}
		}
	}
	if si.loopBody == nil {
		return nil, fmt.Errorf("stripRuntime no longer ranges over file.Decls")
	}
	// the declaration variable: "funcDecl, ok := decl.(*ast.FuncDecl)"
	for _, st := range si.loopBody.List {
		if as, ok := st.(*ast.AssignStmt); ok && len(as.Rhs) == 1 {
			if ta, ok := as.Rhs[0].(*ast.TypeAssertExpr); ok {
				if se, ok := ta.Type.(*ast.StarExpr); ok {
					if sel, ok := se.X.(*ast.SelectorExpr); ok && sel.Sel.Name == "FuncDecl" {
						si.declVar = as.Lhs[0].(*ast.Ident).Name
					}
				}
			}
		}
	}
	if si.declVar == "" {
		return nil, fmt.Errorf("cannot find the *ast.FuncDecl variable in stripRuntime's loop")
	}
	return si, nil
}

type stripEnv struct {
	base, name string
	declVar    string
	res        *stripResult
}

func (si *stripInterp) decide(base, name string) stripResult {
	res := stripResult{}
	env := &stripEnv{base: base, name: name, declVar: si.declVar, res: &res}
	si.block(si.loopBody.List, env)
	return res
}

// block interprets statements; returns false when control leaves the loop body (continue).
func (si *stripInterp) block(list []ast.Stmt, env *stripEnv) bool {
	for _, st := range list {
		if !si.stmt(st, env) {
			return false
		}
	}
	return true
}

func (si *stripInterp) fail(n ast.Node, msg string) {
	if si.undec == "" {
		si.undec = fmt.Sprintf("%s at %s", msg, si.w.Pos(n.Pos()))
	}
}

func (si *stripInterp) stmt(st ast.Stmt, env *stripEnv) bool {
	switch x := st.(type) {
	case *ast.AssignStmt:
		// funcDecl, ok := decl.(*ast.FuncDecl): we only ever interpret for function declarations
		if len(x.Rhs) == 1 {
			if _, ok := x.Rhs[0].(*ast.TypeAssertExpr); ok {
				return true
			}
		}
		if len(x.Lhs) == 1 {
			switch si.lhsKind(x.Lhs[0], env) {
			case "body.list":
				if id, ok := x.Rhs[0].(*ast.Ident); ok && id.Name == "nil" {
					env.res.Emptied = true
					return true
				}
			case "body":
				env.res.Replaced = true
				return true
			case "map":
				return true // strippedFunctions[name] = true
			}
		}
		si.fail(st, "assignment the strip-table interpreter does not understand")
		return true
	case *ast.IfStmt:
		if x.Init != nil {
			si.stmt(x.Init, env)
		}
		// "if !ok { continue }"
		if u, ok := x.Cond.(*ast.UnaryExpr); ok && u.Op == token.NOT {
			if id, ok := u.X.(*ast.Ident); ok && id.Name == "ok" {
				return true
			}
		}
		v, ok := si.boolExpr(x.Cond, env)
		if !ok {
			si.fail(x.Cond, "condition the strip-table interpreter does not understand")
			return true
		}
		if v {
			return si.block(x.Body.List, env)
		}
		if x.Else != nil {
			switch e := x.Else.(type) {
			case *ast.BlockStmt:
				return si.block(e.List, env)
			case *ast.IfStmt:
				return si.stmt(e, env)
			}
		}
		return true
	case *ast.SwitchStmt:
		var tag string
		hasTag := x.Tag != nil
		if hasTag {
			s, ok := si.strExpr(x.Tag, env)
			if !ok {
				si.fail(x.Tag, "switch tag the strip-table interpreter does not understand")
				return true
			}
			tag = s
		}
		var deflt *ast.CaseClause
		for _, cs := range x.Body.List {
			cc := cs.(*ast.CaseClause)
			if cc.List == nil {
				deflt = cc
				continue
			}
			for _, e := range cc.List {
				if hasTag {
					s, ok := si.strExpr(e, env)
					if !ok {
						si.fail(e, "case label is not a constant string")
						return true
					}
					if s == tag {
						return si.block(cc.Body, env)
					}
				} else {
					v, ok := si.boolExpr(e, env)
					if !ok {
						si.fail(e, "case condition not understood")
						return true
					}
					if v {
						return si.block(cc.Body, env)
					}
				}
			}
		}
		if deflt != nil {
			return si.block(deflt.Body, env)
		}
		return true
	case *ast.ExprStmt:
		call, ok := x.X.(*ast.CallExpr)
		if !ok {
			si.fail(st, "expression statement not understood")
			return true
		}
		if id, ok := call.Fun.(*ast.Ident); ok {
			if fl := si.closures[id.Name]; fl != nil && len(call.Args) == 1 {
				if a, ok := call.Args[0].(*ast.Ident); ok && a.Name == env.declVar && len(fl.Type.Params.List) == 1 {
					inner := &stripEnv{base: env.base, name: env.name, declVar: fl.Type.Params.List[0].Names[0].Name, res: env.res}
					si.block(fl.Body.List, inner)
					return true
				}
			}
		}
		si.fail(st, "call the strip-table interpreter does not understand")
		return true
	case *ast.BranchStmt:
		if x.Tok == token.CONTINUE {
			return false
		}
		if x.Tok == token.BREAK {
			return true
		}
	case *ast.BlockStmt:
		return si.block(x.List, env)
	case *ast.EmptyStmt:
		return true
	}
	si.fail(st, fmt.Sprintf("statement %T not understood by the strip-table interpreter", st))
	return true
}

// lhsKind classifies an assignment target.
func (si *stripInterp) lhsKind(e ast.Expr, env *stripEnv) string {
	switch x := e.(type) {
	case *ast.SelectorExpr:
		if x.Sel.Name == "List" {
			if in, ok := x.X.(*ast.SelectorExpr); ok && in.Sel.Name == "Body" {
				if id, ok := in.X.(*ast.Ident); ok && id.Name == env.declVar {
					return "body.list"
				}
			}
		}
		if x.Sel.Name == "Body" {
			if id, ok := x.X.(*ast.Ident); ok && id.Name == env.declVar {
				return "body"
			}
		}
	case *ast.IndexExpr:
		return "map"
	}
	return ""
}

func (si *stripInterp) strExpr(e ast.Expr, env *stripEnv) (string, bool) {
	if tv, ok := si.pkg.TypesInfo.Types[e]; ok && tv.Value != nil && tv.Value.Kind() == constant.String {
		return constant.StringVal(tv.Value), true
	}
	switch x := e.(type) {
	case *ast.Ident:
		if x.Name == si.baseVar {
			return env.base, true
		}
	case *ast.SelectorExpr:
		// funcDecl.Name.Name
		if x.Sel.Name == "Name" {
			if in, ok := x.X.(*ast.SelectorExpr); ok && in.Sel.Name == "Name" {
				if id, ok := in.X.(*ast.Ident); ok && id.Name == env.declVar {
					return env.name, true
				}
			}
		}
	case *ast.ParenExpr:
		return si.strExpr(x.X, env)
	}
	return "", false
}

func (si *stripInterp) boolExpr(e ast.Expr, env *stripEnv) (bool, bool) {
	switch x := e.(type) {
	case *ast.ParenExpr:
		return si.boolExpr(x.X, env)
	case *ast.UnaryExpr:
		if x.Op == token.NOT {
			v, ok := si.boolExpr(x.X, env)
			return !v, ok
		}
	case *ast.BinaryExpr:
		switch x.Op {
		case token.LAND, token.LOR:
			a, ok1 := si.boolExpr(x.X, env)
			b, ok2 := si.boolExpr(x.Y, env)
			if !ok1 || !ok2 {
				return false, false
			}
			if x.Op == token.LAND {
				return a && b, true
			}
			return a || b, true
		case token.EQL, token.NEQ:
			a, ok1 := si.strExpr(x.X, env)
			b, ok2 := si.strExpr(x.Y, env)
			if !ok1 || !ok2 {
				return false, false
			}
			return (a == b) == (x.Op == token.EQL), true
		}
	case *ast.CallExpr:
		sel, ok := x.Fun.(*ast.SelectorExpr)
		if !ok || len(x.Args) != 2 {
			return false, false
		}
		fn, ok := si.pkg.TypesInfo.Uses[sel.Sel].(*types.Func)
		if !ok || fn.Pkg() == nil || fn.Pkg().Path() != "strings" {
			return false, false
		}
		a, ok1 := si.strExpr(x.Args[0], env)
		b, ok2 := si.strExpr(x.Args[1], env)
		if !ok1 || !ok2 {
			return false, false
		}
		switch fn.Name() {
		case "HasPrefix":
			return strings.HasPrefix(a, b), true
		case "HasSuffix":
			return strings.HasSuffix(a, b), true
		case "Contains":
			return strings.Contains(a, b), true
		}
	}
	return false, false
}

// ---------------------------------------------------------------------------
// the runtime as a graph

type rtFunc struct {
	Fn      *ssa.Function
	Name    string // as garble sees it: FuncDecl.Name.Name (methods: the method name)
	File    string // base name
	Emptied bool
}

type rtGraph struct {
	g       *GorootWorld
	prog    *ssa.Program
	pkg     *ssa.Package
	funcs   map[*ssa.Function]*rtFunc // declared functions and methods
	all     []*ssa.Function           // including anonymous
	edges   map[*ssa.Function]map[*ssa.Function]bool
	callers map[*ssa.Function]map[*ssa.Function]bool // in the unstripped graph
	sinks   map[*ssa.Function]string
}

func topFunc(fn *ssa.Function) *ssa.Function {
	for fn.Parent() != nil {
		fn = fn.Parent()
	}
	return fn
}

// liveBlocks prunes successors behind constant conditions.
func liveBlocks(fn *ssa.Function) map[*ssa.BasicBlock]bool {
	live := map[*ssa.BasicBlock]bool{}
	if len(fn.Blocks) == 0 {
		return live
	}
	var walk func(b *ssa.BasicBlock)
	walk = func(b *ssa.BasicBlock) {
		if live[b] {
			return
		}
		live[b] = true
		if iff := ifOf(b); iff != nil {
			if v, ok := constBool(iff.Cond); ok {
				if v {
					walk(b.Succs[0])
				} else {
					walk(b.Succs[1])
				}
				return
			}
		}
		for _, s := range b.Succs {
			walk(s)
		}
	}
	walk(fn.Blocks[0])
	return live
}

func loadRuntimeGraph(goroot string, cfg BuildConfig, si *stripInterp) (*rtGraph, error) {
	g, err := LoadGoroot(goroot, cfg, packages.LoadAllSyntax, "runtime")
	if err != nil {
		return nil, err
	}
	var rt *packages.Package
	for _, r := range g.Roots {
		if r.PkgPath == "runtime" {
			rt = r
		}
	}
	if rt == nil {
		return nil, fmt.Errorf("package runtime not loaded")
	}
	prog, _ := ssautil.AllPackages(g.Roots, 0)
	sp := prog.Package(rt.Types)
	sp.Build()
	rg := &rtGraph{g: g, prog: prog, pkg: sp, funcs: map[*ssa.Function]*rtFunc{}, edges: map[*ssa.Function]map[*ssa.Function]bool{},
		callers: map[*ssa.Function]map[*ssa.Function]bool{}, sinks: map[*ssa.Function]string{}}
	for _, f := range rt.Syntax {
		base := filepath.Base(g.Fset.Position(f.Pos()).Filename)
		for _, d := range f.Decls {
			fd, ok := d.(*ast.FuncDecl)
			if !ok || fd.Body == nil {
				continue
			}
			obj, ok := rt.TypesInfo.Defs[fd.Name].(*types.Func)
			if !ok {
				continue
			}
			fn := prog.FuncValue(obj)
			if fn == nil {
				continue
			}
			res := si.decide(base, fd.Name.Name)
			rg.funcs[fn] = &rtFunc{Fn: fn, Name: fd.Name.Name, File: base, Emptied: res.Emptied || res.Replaced}
		}
	}
	// all functions including closures
	var addAnon func(fn *ssa.Function)
	addAnon = func(fn *ssa.Function) {
		rg.all = append(rg.all, fn)
		for _, a := range fn.AnonFuncs {
			addAnon(a)
		}
	}
	var tops []*ssa.Function
	for fn := range rg.funcs {
		tops = append(tops, fn)
	}
	sort.Slice(tops, func(i, j int) bool { return tops[i].String() < tops[j].String() })
	for _, fn := range tops {
		addAnon(fn)
	}
	isEmptied := func(fn *ssa.Function) bool {
		if rf := rg.funcs[topFunc(fn)]; rf != nil {
			return rf.Emptied
		}
		return false
	}
	addEdge := func(m map[*ssa.Function]map[*ssa.Function]bool, from, to *ssa.Function) {
		if m[from] == nil {
			m[from] = map[*ssa.Function]bool{}
		}
		m[from][to] = true
	}
	inRuntime := func(fn *ssa.Function) bool {
		t := topFunc(fn)
		if o := t.Origin(); o != nil {
			t = o
		}
		return t.Pkg == sp
	}
	for _, fn := range rg.all {
		live := liveBlocks(fn)
		for _, b := range fn.Blocks {
			if !live[b] {
				// code behind a constant-false condition: no edges, but its calls still
				// show that the callee is reached from Go source (not an entry point)
				for _, in := range b.Instrs {
					for _, op := range in.Operands(nil) {
						if target, ok := (*op).(*ssa.Function); ok && inRuntime(target) {
							if o := target.Origin(); o != nil {
								target = o
							}
							addEdge(rg.callers, target, fn)
						}
					}
				}
				continue
			}
			for _, in := range b.Instrs {
				// sinks
				if ci, ok := in.(ssa.CallInstruction); ok {
					if callee := ci.Common().StaticCallee(); callee != nil && (callee.Name() == "write" || callee.Name() == "write1" || callee.Name() == "pwrite") && len(ci.Common().Args) > 0 {
						if n, ok := constInt(ci.Common().Args[0]); ok && n == 2 {
							rg.sinks[fn] = g.Pos(in.Pos())
						}
					}
				}
				// edges: callees and function values
				var callee *ssa.Function
				if ci, ok := in.(ssa.CallInstruction); ok {
					callee = ci.Common().StaticCallee()
					if callee != nil {
						if o := callee.Origin(); o != nil {
							callee = o
						}
					}
				}
				_, isMC := in.(*ssa.MakeClosure)
				for _, op := range in.Operands(nil) {
					if isMC {
						break // handled below
					}
					var target *ssa.Function
					switch v := (*op).(type) {
					case *ssa.Function:
						target = v
					case *ssa.MakeClosure:
						target, _ = v.Fn.(*ssa.Function)
					}
					if target == nil {
						continue
					}
					if o := target.Origin(); o != nil {
						target = o
					}
					if !inRuntime(target) {
						continue
					}
					// a function value handed only to an emptied callee is never called
					if callee != nil && target != callee && isEmptied(callee) {
						addEdge(rg.callers, target, fn)
						continue
					}
					addEdge(rg.callers, target, fn)
					if !isEmptied(fn) {
						addEdge(rg.edges, fn, target)
					}
				}
				if mc, ok := in.(*ssa.MakeClosure); ok {
					if target, ok := mc.Fn.(*ssa.Function); ok {
						// creation alone is not a call, but keep it as a caller relation so closures are not roots
						addEdge(rg.callers, target, fn)
						// the closure value may be called later by this function or stored: conservatively an edge,
						// unless every use is as an argument to an emptied callee
						onlyToEmptied := true
						if refs := mc.Referrers(); refs != nil {
							for _, r := range *refs {
								ci, ok := r.(ssa.CallInstruction)
								if !ok {
									onlyToEmptied = false
									continue
								}
								cal := ci.Common().StaticCallee()
								if cal == nil || !isEmptied(cal) || ci.Common().Value == ssa.Value(mc) {
									onlyToEmptied = false
								}
							}
						}
						if !onlyToEmptied && !isEmptied(fn) {
							addEdge(rg.edges, fn, target)
						}
					}
				}
			}
		}
	}
	return rg, nil
}

// writers computes W: live functions that can reach a sink.
func (rg *rtGraph) writers() map[*ssa.Function]bool {
	w := map[*ssa.Function]bool{}
	isEmptied := func(fn *ssa.Function) bool {
		if rf := rg.funcs[topFunc(fn)]; rf != nil {
			return rf.Emptied
		}
		return false
	}
	for fn := range rg.sinks {
		if !isEmptied(fn) {
			w[fn] = true
		}
	}
	changed := true
	for changed {
		changed = false
		for from, tos := range rg.edges {
			if w[from] || isEmptied(from) {
				continue
			}
			for to := range tos {
				if w[to] {
					w[from] = true
					changed = true
					break
				}
			}
		}
	}
	return w
}

// chainTo returns one call chain from fn to a sink inside W.
func (rg *rtGraph) chainTo(fn *ssa.Function, w map[*ssa.Function]bool) string {
	var parts []string
	seen := map[*ssa.Function]bool{}
	cur := fn
	for cur != nil && !seen[cur] && len(parts) < 12 {
		seen[cur] = true
		parts = append(parts, cur.Name())
		if _, ok := rg.sinks[cur]; ok {
			break
		}
		var next *ssa.Function
		var cands []*ssa.Function
		for to := range rg.edges[cur] {
			if w[to] && !seen[to] {
				cands = append(cands, to)
			}
		}
		sort.Slice(cands, func(i, j int) bool { return cands[i].Name() < cands[j].Name() })
		if len(cands) > 0 {
			next = cands[0]
		}
		cur = next
	}
	return strings.Join(parts, " -> ") + " -> write(2, ...)"
}
