package main

import (
	"fmt"
	"go/ast"
	"go/constant"
	"go/token"
	"go/types"
	"regexp/syntax"
	"sort"
	"strconv"
	"strings"

	"golang.org/x/tools/go/packages"
	"golang.org/x/tools/go/ssa"
)

func init() {
	register(&propCheck{
		id: "C20",
		explain: "Decides the table and sibling agreements behind 'command lines are split like the go command': " +
			"(R20.1) garble's booleanFlags table against every flag.FlagSet registration in the pinned toolchain's cmd/go/internal/{work,test,run,base} (type-checked from GOROOT source): each boolean registration (Bool*, or Var of a type whose IsBoolFlag returns true) is in the table, no table entry is a value flag there; " +
			"(R20.2) every build flag registered by AddBuildFlags/AddCoverFlags/AddMod*/AddChdirFlag has a key in forwardBuildFlags, the always-set and never-forwarded ones are false; " +
			"(R20.3) the two splitters (splitFlagsFromArgs, filterForwardBuildFlags) use the same table, the same '=' rule and the same normalisation of the flag spelling; " +
			"(R20.4) the alternatives of rxGarbleFlag equal the flags registered on garble's own FlagSet; " +
			"(R20.5) toolexecCmd rejects garble flags after the command, appends the user's flags and then packages, exactly the two results of splitFlagsFromArgs, last and unmodified; reverse and map reject unknown flags before doing anything. " +
			"Does not decide the acceptance of any concrete command line.",
		perConfig: checkC20repo,
		once:      checkC20goroot,
	})
}

// mapLitTable extracts a package-level `var name = map[string]bool{...}` from syntax.
func mapLitTable(p *packages.Package, name string) (map[string]bool, token.Pos, bool) {
	for _, f := range p.Syntax {
		for _, d := range f.Decls {
			gd, ok := d.(*ast.GenDecl)
			if !ok || gd.Tok != token.VAR {
				continue
			}
			for _, sp := range gd.Specs {
				vs := sp.(*ast.ValueSpec)
				for i, n := range vs.Names {
					if n.Name != name || i >= len(vs.Values) {
						continue
					}
					cl, ok := vs.Values[i].(*ast.CompositeLit)
					if !ok {
						return nil, n.Pos(), false
					}
					out := map[string]bool{}
					for _, el := range cl.Elts {
						kv, ok := el.(*ast.KeyValueExpr)
						if !ok {
							return nil, n.Pos(), false
						}
						ktv, vtv := p.TypesInfo.Types[kv.Key], p.TypesInfo.Types[kv.Value]
						if ktv.Value == nil || vtv.Value == nil {
							return nil, n.Pos(), false
						}
						out[constant.StringVal(ktv.Value)] = constant.BoolVal(vtv.Value)
					}
					return out, n.Pos(), true
				}
			}
		}
	}
	return nil, token.NoPos, false
}

// flagReg is one flag.FlagSet registration found in source.
type flagReg struct {
	Name   string
	Bool   bool
	Undec  string // non-empty if boolean-ness could not be decided
	Method string
	Pos    token.Pos
	InFunc string
	Pkg    string
}

// flagRegistrations finds calls of (*flag.FlagSet) registration methods in the given packages.
func flagRegistrations(pkgs []*packages.Package, all map[string]*packages.Package) []flagReg {
	nameArg := map[string]int{
		"Bool": 0, "BoolVar": 1, "BoolFunc": 0, "String": 0, "StringVar": 1, "Int": 0, "IntVar": 1, "Int64": 0, "Int64Var": 1,
		"Uint": 0, "UintVar": 1, "Uint64": 0, "Uint64Var": 1, "Float64": 0, "Float64Var": 1, "Duration": 0, "DurationVar": 1,
		"Func": 0, "Var": 1, "TextVar": 1,
	}
	var out []flagReg
	for _, p := range pkgs {
		for _, f := range p.Syntax {
			var stack []ast.Node
			ast.Inspect(f, func(n ast.Node) bool {
				if n == nil {
					stack = stack[:len(stack)-1]
					return true
				}
				stack = append(stack, n)
				call, ok := n.(*ast.CallExpr)
				if !ok {
					return true
				}
				sel, ok := call.Fun.(*ast.SelectorExpr)
				if !ok {
					return true
				}
				fn, ok := p.TypesInfo.Uses[sel.Sel].(*types.Func)
				if !ok || fn.Pkg() == nil || fn.Pkg().Path() != "flag" {
					return true
				}
				recv := fn.Signature().Recv()
				if recv == nil || namedOf(recv.Type()) != "FlagSet" {
					return true
				}
				idx, ok := nameArg[fn.Name()]
				if !ok || idx >= len(call.Args) {
					return true
				}
				tv := p.TypesInfo.Types[call.Args[idx]]
				if tv.Value == nil || tv.Value.Kind() != constant.String {
					return true // computed names such as "test."+name: aliases of flags registered with a constant name
				}
				r := flagReg{Name: constant.StringVal(tv.Value), Method: fn.Name(), Pos: call.Pos(), Pkg: p.PkgPath}
				for i := len(stack) - 1; i >= 0; i-- {
					if fd, ok := stack[i].(*ast.FuncDecl); ok {
						r.InFunc = fd.Name.Name
						break
					}
				}
				switch fn.Name() {
				case "Bool", "BoolVar", "BoolFunc":
					r.Bool = true
				case "Var":
					r.Bool, r.Undec = isBoolFlagType(p.TypesInfo.TypeOf(call.Args[0]), all)
				}
				out = append(out, r)
				return true
			})
		}
	}
	sort.Slice(out, func(i, j int) bool { return out[i].Name < out[j].Name })
	return out
}

// isBoolFlagType decides whether values of type t report IsBoolFlag() == true,
// by finding the method's declaration and requiring its body to be "return true".
func isBoolFlagType(t types.Type, all map[string]*packages.Package) (bool, string) {
	if t == nil {
		return false, "no type for the flag value"
	}
	obj, _, _ := types.LookupFieldOrMethod(t, true, nil, "IsBoolFlag")
	m, ok := obj.(*types.Func)
	if !ok {
		return false, ""
	}
	if m.Pkg() == nil {
		return false, "IsBoolFlag from an interface: cannot decide"
	}
	p := all[m.Pkg().Path()]
	if p == nil {
		return false, "package of IsBoolFlag not loaded"
	}
	for _, f := range p.Syntax {
		for _, d := range f.Decls {
			fd, ok := d.(*ast.FuncDecl)
			if !ok || p.TypesInfo.Defs[fd.Name] != types.Object(m) {
				continue
			}
			if fd.Body != nil && len(fd.Body.List) == 1 {
				if rs, ok := fd.Body.List[0].(*ast.ReturnStmt); ok && len(rs.Results) == 1 {
					if tv := p.TypesInfo.Types[rs.Results[0]]; tv.Value != nil && tv.Value.Kind() == constant.Bool {
						return constant.BoolVal(tv.Value), ""
					}
				}
			}
			return false, "IsBoolFlag of " + t.String() + " is not a constant"
		}
	}
	return false, "declaration of IsBoolFlag not found"
}

// ---------------------------------------------------------------------------
// against GOROOT (once per run)

func checkC20goroot(c *Ctx) {
	w := c.W
	boolTab, bpos, ok1 := mapLitTable(w.Main, "booleanFlags")
	fwdTab, fpos, ok2 := mapLitTable(w.Main, "forwardBuildFlags")
	c.Rule("R20.1", "booleanFlags agrees with the boolean-ness of every flag cmd/go registers for build/test/run", 30)
	c.Rule("R20.2", "forwardBuildFlags has a key for every build flag cmd/go registers; always-set / never-forwarded ones are false", 30)
	if !ok1 || !ok2 {
		c.Undecided("R20.1", "booleanFlags/forwardBuildFlags", w.Pos(bpos), "the flag tables are no longer constant map literals")
		return
	}
	c.Count("booleanFlags entries", len(boolTab))
	c.Count("forwardBuildFlags entries", len(fwdTab))
	for _, goroot := range gorootsFor(c.Tier) {
		gv := gorootName(goroot)
		g, err := LoadGoroot(goroot, BuildConfig{GOOS: "linux", GOARCH: "amd64"}, packages.LoadAllSyntax,
			"cmd/go/internal/work", "cmd/go/internal/test", "cmd/go/internal/run", "cmd/go/internal/base")
		if err != nil {
			c.Undecided("R20.1", "load cmd/go of "+gv, "", err.Error())
			continue
		}
		regs := flagRegistrations(g.Roots, g.All)
		c.Count("cmd/go flag registrations ("+gv+")", len(regs))
		if len(regs) < 60 {
			c.Bad("R20.1", "cmd/go registrations "+gv, "", fmt.Sprintf("only %d flag registrations found in cmd/go/internal/{work,test,run,base}; expected at least 60", len(regs)))
			continue
		}
		suffix := ""
		if goroot != gorootsFor(c.Tier)[0] {
			suffix = " [" + gv + "]"
		}
		kind := map[string]string{} // name -> "bool" | "value"
		for _, r := range regs {
			name := "-" + r.Name
			key := "flag " + name + suffix
			if r.Undec != "" {
				c.Undecided("R20.1", key, g.Pos(r.Pos), r.Undec)
				continue
			}
			k := "value"
			if r.Bool {
				k = "bool"
			}
			if prev, ok := kind[name]; ok && prev != k {
				// e.g. -v: BoolVar for build, Var(testVFlag) for test — both boolean; a real conflict is reported
				c.Bad("R20.1", key, g.Pos(r.Pos), "registered both as boolean and as value flag in cmd/go; a single table cannot be right")
				continue
			}
			if _, ok := kind[name]; ok {
				continue
			}
			kind[name] = k
			inTab := boolTab[name]
			switch {
			case r.Bool && inTab:
				c.OK("R20.1", key, g.Pos(r.Pos), "boolean in cmd/go ("+r.Method+" in "+r.InFunc+") and in booleanFlags")
			case r.Bool && !inTab:
				c.Bad("R20.1", key, g.Pos(r.Pos), fmt.Sprintf("cmd/go %s registers %s as a boolean flag (%s in %s.%s) but garble's booleanFlags lacks it: garble takes the following argument for the flag's value and mis-splits flags from packages", gv, name, r.Method, shortGo(r.Pkg), r.InFunc))
			case !r.Bool && inTab:
				c.Bad("R20.1", key, g.Pos(r.Pos), fmt.Sprintf("cmd/go %s registers %s as a value flag (%s) but booleanFlags lists it as boolean: its value would be taken for a package", gv, name, r.Method))
			default:
				c.OK("R20.1", key, g.Pos(r.Pos), "value flag in cmd/go, absent from booleanFlags")
			}
		}
		// table entries that cmd/go does not register at all are tolerated only if reviewed
		for _, name := range sortedKeys(boolTab) {
			if _, ok := kind[name]; ok || !boolTab[name] {
				continue
			}
			if name == "-i" {
				c.OK("R20.1", "table entry "+name+suffix, w.Pos(bpos), "removed from cmd/go (go1.20); harmless: go rejects it itself")
			} else {
				c.Bad("R20.1", "table entry "+name+suffix, w.Pos(bpos), "booleanFlags lists "+name+", which cmd/go "+gv+" does not register for build/test/run")
			}
		}

		// R20.2: build flags (registered inside the Add*Flags helpers)
		never := map[string]string{
			"-a": "not for nested go list", "-n": "not for nested go list", "-x": "not for nested go list", "-v": "not for nested go list",
			"-trimpath": "always set by garble", "-toolexec": "always set by garble", "-buildvcs": "always set by garble",
		}
		notBuildAffecting := map[string]string{
			"-json": "output format only", "-debug-actiongraph": "diagnostics", "-debug-runtime-trace": "diagnostics", "-debug-trace": "diagnostics",
			"-coverprofile": "names an output file of the run, does not change what is built",
		}
		seen := map[string]bool{}
		for _, r := range regs {
			switch r.InFunc {
			case "AddBuildFlags", "AddCoverFlags", "AddModFlag", "AddModCommonFlags", "AddChdirFlag", "AddBuildFlagsNX", "AddCoverProfileFlags":
			default:
				continue
			}
			name := "-" + r.Name
			if seen[name] {
				continue
			}
			seen[name] = true
			key := "build flag " + name + suffix
			val, present := fwdTab[name]
			switch {
			case notBuildAffecting[name] != "":
				c.Check(!val, "R20.2", key, g.Pos(r.Pos), "not build-affecting ("+notBuildAffecting[name]+"), not forwarded", name+" is forwarded to go list although it is "+notBuildAffecting[name])
			case never[name] != "":
				c.Check(present && !val, "R20.2", key, g.Pos(r.Pos), never[name]+": listed as false", name+" must be listed with value false ("+never[name]+")")
			case present && val:
				c.OK("R20.2", key, g.Pos(r.Pos), "forwarded to the nested go list")
			default:
				c.Bad("R20.2", key, g.Pos(r.Pos), fmt.Sprintf("cmd/go %s registers the build flag %s (%s.%s) but forwardBuildFlags does not forward it: garble's go list would see a different build than the go command", gv, name, shortGo(r.Pkg), r.InFunc))
			}
		}
		for _, name := range sortedKeys(fwdTab) {
			if !seen[name] && fwdTab[name] {
				if name == "-workfile" {
					// registered by cmd/go/internal/modload (AddWorkfileFlag? via base.AddModCommonFlags in older versions)
					c.OK("R20.2", "table entry "+name+suffix, w.Pos(fpos), "workspace flag, registered outside the four analysed packages")
					continue
				}
				c.Bad("R20.2", "table entry "+name+suffix, w.Pos(fpos), "forwardBuildFlags forwards "+name+", which cmd/go "+gv+" does not register as a build flag")
			}
		}
	}
}

func shortGo(p string) string { return strings.TrimPrefix(p, "cmd/go/internal/") }

// ---------------------------------------------------------------------------
// inside /repo

func checkC20repo(c *Ctx) {
	w := c.W
	c.Rule("R20.3", "the two splitters agree: same table, same '=' rule, same normalisation of the flag spelling", 3)
	split := w.Fn("splitFlagsFromArgs")
	filter := w.Fn("filterForwardBuildFlags")
	if split == nil || filter == nil {
		c.Undecided("R20.3", "splitFlagsFromArgs/filterForwardBuildFlags", "", "anchor functions not found")
	} else {
		a, b := splitterShape(split), splitterShape(filter)
		c.Check(a.table && b.table, "R20.3", "both splitters consult booleanFlags", w.Pos(split.Pos()),
			"both look the flag up in booleanFlags", fmt.Sprintf("booleanFlags lookup: splitFlagsFromArgs=%v filterForwardBuildFlags=%v", a.table, b.table))
		c.Check(a.eqRule && b.eqRule, "R20.3", "both splitters treat -name=value as self-contained", w.Pos(split.Pos()),
			"both test strings.Contains(arg, \"=\") on the lookup's false edge", fmt.Sprintf("'=' rule: splitFlagsFromArgs=%v filterForwardBuildFlags=%v", a.eqRule, b.eqRule))
		if a.norm == b.norm {
			c.OK("R20.3", "flag spelling normalisation", w.Pos(split.Pos()), "both splitters derive the lookup key the same way: "+a.norm)
		} else {
			c.Bad("R20.3", "flag spelling normalisation", w.Pos(split.Pos()), fmt.Sprintf("the key looked up in booleanFlags is derived differently: splitFlagsFromArgs uses %s, filterForwardBuildFlags uses %s — a spelling such as --trimpath is boolean for one and takes a value for the other", a.norm, b.norm))
		}
	}

	// R20.4 ---------------------------------------------------------------
	c.Rule("R20.4", "rxGarbleFlag's alternatives are exactly the flags registered on garble's FlagSet, and it matches whole flag names only", 6)
	regs := flagRegistrations([]*packages.Package{w.Main}, w.All)
	own := map[string]bool{}
	for _, r := range regs {
		own[r.Name] = true
	}
	rxSrc, rxPos := "", token.NoPos
	for _, cs := range w.CallsTo("regexp.MustCompile") {
		if refs := cs.Instr.(*ssa.Call).Referrers(); refs != nil {
			for _, r := range *refs {
				if st, ok := r.(*ssa.Store); ok {
					if g, ok := st.Addr.(*ssa.Global); ok && g.Name() == "rxGarbleFlag" {
						rxSrc, _ = constString(cs.Arg(0))
						rxPos = cs.Instr.Pos()
					}
				}
			}
		}
	}
	if rxSrc == "" {
		c.Undecided("R20.4", "rxGarbleFlag", "", "initialiser of rxGarbleFlag not found")
	} else {
		alts, err := regexAlternatives(rxSrc)
		if err != nil {
			c.Undecided("R20.4", "rxGarbleFlag", w.Pos(rxPos), "cannot read the alternatives of "+strconv.Quote(rxSrc)+": "+err.Error())
		} else {
			for _, n := range sortedKeys(own) {
				c.Check(alts[n], "R20.4", "garble flag -"+n, w.Pos(rxPos), "registered and rejected after the command", "-"+n+" is a garble flag but rxGarbleFlag does not match it: placed after the command it is passed to the go command instead of being rejected")
			}
			for _, n := range sortedKeys(alts) {
				if !own[n] {
					c.Bad("R20.4", "regexp alternative -"+n, w.Pos(rxPos), "rxGarbleFlag rejects -"+n+", which is not a garble flag (a go flag of that name could no longer be used)")
				}
			}
			// the pattern is matched against every element after the command, flag values included
			// ("-o", "out-tiny"): it must be anchored at the start of the element and at the end of
			// the name, or values and other flags that merely contain "-tiny", "-debug", ... are rejected
			anchored := false
			if re, err := syntax.Parse(rxSrc, syntax.Perl); err == nil {
				re = re.Simplify()
				if re.Op == syntax.OpConcat && len(re.Sub) > 0 && (re.Sub[0].Op == syntax.OpBeginText || re.Sub[0].Op == syntax.OpBeginLine) {
					anchored = true
				}
			}
			c.Check(anchored, "R20.4", "rxGarbleFlag is anchored", w.Pos(rxPos), "matches a whole flag name from the start of the argument",
				"rxGarbleFlag is not anchored at the start: 'garble build -o out-tiny .' and 'garble build -tags=x-debug .' are rejected with 'garble flags must precede command', although go build accepts them")
		}
	}

	checkC20order(c)
}

type splitShape struct {
	table  bool
	eqRule bool
	norm   string
}

// splitterShape describes how a splitter decides that a flag is self-contained.
func splitterShape(fn *ssa.Function) splitShape {
	var sh splitShape
	sh.norm = "?"
	for _, b := range fn.Blocks {
		for _, in := range b.Instrs {
			lk, ok := in.(*ssa.Lookup)
			if !ok {
				continue
			}
			ld, ok := lk.X.(*ssa.UnOp)
			if !ok {
				continue
			}
			g, ok := ld.X.(*ssa.Global)
			if !ok || g.Name() != "booleanFlags" {
				continue
			}
			sh.table = true
			sh.norm = keyDerivation(lk.Index)
			// the lookup result must drive an If whose false edge tests strings.Contains(_, "=")
			if refs := lk.Referrers(); refs != nil {
				for _, r := range *refs {
					iff, ok := r.(*ssa.If)
					if !ok {
						continue
					}
					fb := iff.Block().Succs[1]
					if i2 := ifOf(fb); i2 != nil {
						if call, ok := i2.Cond.(*ssa.Call); ok && calleeName(call) == "strings.Contains" {
							if s, ok := constString(call.Call.Args[1]); ok && s == "=" {
								// both "self-contained" outcomes go to the same place
								if iff.Block().Succs[0] == fb.Succs[0] {
									sh.eqRule = true
								}
							}
						}
					}
				}
			}
		}
	}
	return sh
}

// keyDerivation describes how a map key is derived from a slice element:
// "element" for the raw argument, otherwise the operations applied to it.
func keyDerivation(v ssa.Value) string {
	var ops []string
	seen := map[ssa.Value]bool{}
	var walk func(v ssa.Value)
	walk = func(v ssa.Value) {
		if seen[v] {
			return
		}
		seen[v] = true
		switch x := v.(type) {
		case *ssa.Phi:
			for _, e := range x.Edges {
				walk(e)
			}
		case *ssa.Slice:
			lo := "?"
			if n, ok := constInt(x.Low); ok {
				lo = strconv.FormatInt(n, 10)
			}
			cond := ""
			for _, f := range edgeFacts(x.Block()) {
				if call, ok := f.V.(*ssa.Call); ok && len(call.Call.Args) == 2 && call.Call.Args[0] == x.X {
					if s, ok := constString(call.Call.Args[1]); ok {
						cond = fmt.Sprintf(" if %s(_, %q)=%v", calleeName(call), s, f.Outcome)
						break // innermost test on the sliced value
					}
				}
			}
			ops = append(ops, "drop-prefix["+lo+":]"+cond)
			walk(x.X)
		case *ssa.Call:
			ops = append(ops, "call "+calleeName(x))
			for _, a := range x.Call.Args {
				walk(a)
			}
		case *ssa.Extract:
			ops = append(ops, fmt.Sprintf("result#%d", x.Index))
			walk(x.Tuple)
		case *ssa.BinOp:
			ops = append(ops, "binop "+x.Op.String())
			walk(x.X)
			walk(x.Y)
		case *ssa.UnOp:
			if _, ok := x.X.(*ssa.IndexAddr); ok && x.Op == token.MUL {
				return // the element itself
			}
			walk(x.X)
		}
	}
	walk(v)
	if len(ops) == 0 {
		return "the raw argument"
	}
	sort.Strings(ops)
	return "the argument after {" + strings.Join(ops, ", ") + "}"
}

// regexAlternatives extracts the literal alternatives of a pattern shaped
// like -(?:a|b|c)(?:$|=).
func regexAlternatives(src string) (map[string]bool, error) {
	re, err := syntax.Parse(src, syntax.Perl)
	if err != nil {
		return nil, err
	}
	if re.Op != syntax.OpConcat || len(re.Sub) < 2 {
		return nil, fmt.Errorf("unexpected shape %s", re.Op)
	}
	out := map[string]bool{}
	// words are "prefix" + each alternative; regexp/syntax factors common prefixes, so enumerate
	var enum func(r *syntax.Regexp) ([]string, error)
	enum = func(r *syntax.Regexp) ([]string, error) {
		switch r.Op {
		case syntax.OpLiteral:
			return []string{string(r.Rune)}, nil
		case syntax.OpEmptyMatch, syntax.OpBeginText, syntax.OpBeginLine:
			return []string{""}, nil
		case syntax.OpQuest:
			x, err := enum(r.Sub[0])
			if err != nil {
				return nil, err
			}
			return append([]string{""}, x...), nil
		case syntax.OpCapture:
			return enum(r.Sub[0])
		case syntax.OpAlternate:
			var all []string
			for _, s := range r.Sub {
				x, err := enum(s)
				if err != nil {
					return nil, err
				}
				all = append(all, x...)
			}
			return all, nil
		case syntax.OpConcat:
			cur := []string{""}
			for _, s := range r.Sub {
				x, err := enum(s)
				if err != nil {
					return nil, err
				}
				var next []string
				for _, a := range cur {
					for _, b := range x {
						next = append(next, a+b)
					}
				}
				cur = next
			}
			return cur, nil
		case syntax.OpCharClass:
			var all []string
			for i := 0; i+1 < len(r.Rune); i += 2 {
				for c := r.Rune[i]; c <= r.Rune[i+1]; c++ {
					all = append(all, string(c))
					if len(all) > 64 {
						return nil, fmt.Errorf("character class too large")
					}
				}
			}
			return all, nil
		}
		return nil, fmt.Errorf("unsupported regexp operator %s", r.Op)
	}
	// drop the trailing (?:$|=) group
	body := &syntax.Regexp{Op: syntax.OpConcat, Sub: re.Sub[:len(re.Sub)-1]}
	words, err := enum(body)
	if err != nil {
		return nil, err
	}
	for _, w := range words {
		if !strings.HasPrefix(w, "-") {
			return nil, fmt.Errorf("alternative %q does not start with '-'", w)
		}
		out[strings.TrimLeft(w, "-")] = true
	}
	return out, nil
}

// R20.5
func checkC20order(c *Ctx) {
	w := c.W
	c.Rule("R20.5", "user flags and packages reach the go command last, in order, unmodified; garble flags after the command and unknown flags for reverse/map are rejected", 6)
	tc := w.Fn("toolexecCmd")
	split := w.Fn("splitFlagsFromArgs")
	if tc == nil || split == nil {
		c.Undecided("R20.5", "toolexecCmd", "", "anchor functions not found")
		return
	}
	var flagsV, argsV ssa.Value
	for _, cs := range w.CallsToFn(split) {
		if cs.Fn != tc {
			continue
		}
		for _, r := range *cs.Instr.(*ssa.Call).Referrers() {
			if ex, ok := r.(*ssa.Extract); ok {
				if ex.Index == 0 {
					flagsV = ex
				} else {
					argsV = ex
				}
			}
		}
	}
	if flagsV == nil || argsV == nil {
		c.Bad("R20.5", "toolexecCmd split", w.Pos(tc.Pos()), "toolexecCmd no longer splits its arguments with splitFlagsFromArgs")
		return
	}
	// the final exec.Command("go", goArgs...) : goArgs = append(append(X, flags...), args...)
	done := false
	for _, cs := range w.CallsTo("os/exec.Command") {
		if cs.Fn != tc {
			continue
		}
		if s, _ := constString(cs.Args()[0]); s != "go" {
			continue
		}
		outer, ok := cs.Args()[1].(*ssa.Call)
		if !ok || calleeName(outer) != "builtin.append" {
			continue
		}
		done = true
		pos := w.Pos(cs.Instr.Pos())
		inner, ok2 := outer.Call.Args[0].(*ssa.Call)
		okOrder := outer.Call.Args[1] == argsV && ok2 && calleeName(inner) == "builtin.append" && inner.Call.Args[1] == flagsV
		c.Check(okOrder, "R20.5", "toolexecCmd go command tail", pos, "go <garble's arguments> <user flags...> <user packages...>",
			"the go command no longer ends with the user's flags followed by the user's packages (the two results of splitFlagsFromArgs, appended last and in that order)")
		// garble's own arguments come first: the base of the inner append must contain -toolexec and the build flags
		if ok2 {
			sl := w.BackSlice(inner.Call.Args[0], sliceOpt{})
			c.Check(sl.Globals["main.garbleBuildFlags"] && sl.Consts[`"-toolexec="`], "R20.5", "toolexecCmd go command head", pos,
				"starts with the command, garbleBuildFlags and -toolexec", "garble's own build flags or -toolexec are missing from the head of the go command")
		}
	}
	if !done {
		c.Bad("R20.5", "toolexecCmd go command tail", w.Pos(tc.Pos()), "exec.Command(\"go\", append(...)...) not found")
	}
	// no element store through the user's slices, here or in module callees that receive them
	var stores []string
	checkNoStore := func(fn *ssa.Function, v ssa.Value) {
		if refs := v.Referrers(); refs != nil {
			for _, r := range *refs {
				if ia, ok := r.(*ssa.IndexAddr); ok {
					for _, q := range *ia.Referrers() {
						if st, ok := q.(*ssa.Store); ok && st.Addr == ssa.Value(ia) {
							stores = append(stores, w.Pos(st.Pos()))
						}
					}
				}
			}
		}
	}
	for _, v := range []ssa.Value{flagsV, argsV} {
		checkNoStore(tc, v)
		for _, r := range *v.Referrers() {
			if ci, ok := r.(ssa.CallInstruction); ok {
				if callee := calleeFunc(ci); callee != nil && w.isModuleFn(callee) {
					for i, a := range ci.Common().Args {
						if a == v && i < len(callee.Params) {
							checkNoStore(callee, callee.Params[i])
						}
					}
				}
			}
		}
	}
	c.Check(len(stores) == 0, "R20.5", "user flags and packages are not modified", w.Pos(tc.Pos()), "no element store through either slice",
		"an element of the user's flag or package slice is overwritten at "+strings.Join(stores, ", "))

	// garble flags after the command are rejected
	okRx := false
	for _, cs := range w.CallsTo("(*regexp.Regexp).MatchString") {
		if cs.Fn != tc {
			continue
		}
		rs := w.BackSlice(cs.Recv(), sliceOpt{StopGlobals: []string{"main.rxGarbleFlag"}})
		as := w.BackSlice(cs.Arg(0), sliceOpt{})
		if !rs.Globals["main.rxGarbleFlag"] || !as.Values[flagsV] {
			continue
		}
		call := cs.Instr.(*ssa.Call)
		for _, r := range *call.Referrers() {
			if iff, ok := r.(*ssa.If); ok {
				tb := iff.Block().Succs[0]
				if rets := tb.Instrs[len(tb.Instrs)-1]; rets != nil {
					if ret, ok := rets.(*ssa.Return); ok {
						res := retResults(ret)
						if len(res) == 2 && !isNilConst(res[1]) {
							okRx = true
						}
					}
				}
			}
		}
		// and it is checked before the command is assembled
		for _, ret := range returnsOf(tc) {
			res := retResults(ret)
			if h := loopHeaderOf(cs.Instr.Block()); len(res) == 2 && isNilConst(res[1]) && (h == nil || !h.Dominates(ret.Block())) {
				okRx = false
			}
		}
	}
	c.Check(okRx, "R20.5", "garble flags after the command are rejected", w.Pos(tc.Pos()), "every user flag is matched against rxGarbleFlag and a match returns an error before the command is assembled",
		"toolexecCmd no longer rejects garble's own flags placed after the command")

	// reverse / map reject unknown flags
	rej := w.Fn("rejectUnknownBuildFlags")
	for _, name := range []string{"commandReverse", "commandMap"} {
		fn := w.Fn(name)
		ok := false
		if fn != nil && rej != nil {
			for _, cs := range w.CallsToFn(rej) {
				if cs.Fn != fn {
					continue
				}
				// the error is returned, and the check dominates the use of ListedPackages
				call := cs.Instr.(*ssa.Call)
				returned := false
				for _, r := range *call.Referrers() {
					if _, _, isTest := nilTest(valueOfInstr(r)); isTest {
						returned = true
					}
				}
				dominatesUse := true
				for _, use := range w.CallsTo("(*mvdan.cc/garble.listedPackages).all") {
					if use.Fn == fn && !dominatesInstr(call, use.Instr) {
						dominatesUse = false
					}
				}
				ok = returned && dominatesUse
			}
		}
		c.Check(ok, "R20.5", name+" rejects unknown flags", "", "rejectUnknownBuildFlags is called, tested, and precedes the use of the package list",
			name+" no longer rejects flags unknown to the go command before inspecting packages")
	}
}
