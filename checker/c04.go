package main

import (
	"fmt"
	"go/token"
	"sort"
	"strings"

	"golang.org/x/tools/go/ssa"
)

func init() {
	register(&propCheck{
		id: "C04",
		explain: "Decides the sibling-agreement clauses behind 'garble reverse restores traces': " +
			"(R04.1) the string hashed for a call-site position is built the same way when obfuscating (printFile) and when reversing (commandReverse): same format constant, a file name, the byte Offset of the token.Position of a CallExpr's Pos(), hashed with hashWithPackage and suffixed .go; the derivation of the file-name operand is compared too; " +
			"(R04.2) names: declarations are hashed with hashWithPackage, fields with hashWithStruct on (fieldToStruct[o], o), assembly files with hashWithPackage(...)+\".s\" on both sides; " +
			"(R04.3) every pair appended to the replacement list is (hashed, original), and the more specific key X+\":1\" precedes its prefix X; " +
			"(R04.4) reverseContent writes the replaced text of every line it reads, including a last line without newline, before looking at the read error, and commandReverse exits with status 1 exactly when nothing was modified; " +
			"(R04.5) every listed package is visited and only those not selected for obfuscation are skipped; " +
			"(R04.6) the line directive of a call is anchored at a token of the call itself (known finding F15: it is anchored at the next identifier in source order, so multi-line call chains are not reversed). " +
			"Does not decide that offsets of the compile-time syntax tree equal those of a fresh parse, nor the semantics of strings.Replacer.",
		perConfig: checkC04,
	})
}

// posHashShape describes how a position hash input is built at a hashWithPackage site.
type posHashShape struct {
	Site     CallSite
	Format   string
	FileOps  []string // calls applied to obtain the file-name operand
	Offset   bool     // second operand is Position.Offset
	CallPos  bool     // ... of (*ast.CallExpr).Pos()
	PosCalls []string // how the token.Position is obtained
	Suffix   string   // constant appended to the hash
}

func positionShape(w *World, cs CallSite) (posHashShape, bool) {
	sh := posHashShape{Site: cs}
	call, ok := cs.Args()[1].(*ssa.Call)
	if !ok || calleeName(call) != "fmt.Sprintf" {
		return sh, false
	}
	sh.Format, _ = constString(call.Call.Args[0])
	ops := variadicElems(call.Call.Args[1])
	if len(ops) != 2 {
		return sh, false
	}
	fs := w.BackSlice(ops[0], sliceOpt{})
	for _, n := range fs.CallNames() {
		if strings.HasPrefix(n, "path/filepath.") || strings.HasPrefix(n, "(*go/token.File).") || strings.HasPrefix(n, "strings.") {
			sh.FileOps = append(sh.FileOps, n)
		}
	}
	if fs.Fields["listedPackage.CompiledGoFiles"] {
		sh.FileOps = append(sh.FileOps, "listedPackage.CompiledGoFiles[i]")
	}
	sort.Strings(sh.FileOps)
	os := w.BackSlice(ops[1], sliceOpt{})
	sh.Offset = os.Fields["Position.Offset"]
	sh.CallPos = os.HasCall("(*go/ast.CallExpr).Pos")
	for _, n := range os.CallNames() {
		if strings.HasSuffix(n, ").Position") || strings.HasSuffix(n, ").PositionFor") {
			sh.PosCalls = append(sh.PosCalls, n)
		}
		if strings.HasSuffix(n, ").End") || strings.HasSuffix(n, ".Line") {
			sh.CallPos = false
		}
	}
	if os.Fields["Position.Line"] || os.Fields["Position.Column"] {
		sh.Offset = false
	}
	// suffix appended to the result
	if v, ok := cs.Instr.(ssa.Value); ok && v.Referrers() != nil {
		for _, r := range *v.Referrers() {
			if bo, ok := r.(*ssa.BinOp); ok && bo.X == v {
				sh.Suffix, _ = constString(bo.Y)
			}
		}
	}
	return sh, true
}

func checkC04(c *Ctx) {
	w := c.W
	checkCallAnchor(c)
	hwp := w.Fn("hashWithPackage")
	c.Rule("R04.1", "forward and reverse build the position hash input the same way", 4)
	var fwd, rev *posHashShape
	for _, cs := range w.CallsToFn(hwp) {
		sh, ok := positionShape(w, cs)
		if !ok {
			continue
		}
		shc := sh
		_ = shc
		switch {
		case w.FuncName(cs.Fn) == "printFile":
			fwd = &sh
		case strings.HasPrefix(w.FuncName(cs.Fn), "commandReverse"):
			rev = &sh
		default:
			c.Bad("R04.1", "position hash in "+w.FuncName(cs.Fn), w.Pos(cs.Instr.Pos()), "a third place builds a position hash")
		}
	}
	if fwd == nil || rev == nil {
		c.Bad("R04.1", "position hash sites", "", fmt.Sprintf("expected one position hash in printFile and one in commandReverse (found forward=%v reverse=%v)", fwd != nil, rev != nil))
	} else {
		pos := w.Pos(rev.Site.Instr.Pos())
		c.Check(fwd.Format == rev.Format && fwd.Format != "", "R04.1", "format constant", pos, fmt.Sprintf("both use %q", fwd.Format), fmt.Sprintf("forward hashes %q, reverse %q", fwd.Format, rev.Format))
		c.Check(fwd.Offset && rev.Offset && fwd.CallPos && rev.CallPos, "R04.1", "position operand", pos, "both hash the byte Offset of the Position of CallExpr.Pos()",
			fmt.Sprintf("the position operands differ or are not CallExpr.Pos().Offset (forward: offset=%v callpos=%v; reverse: offset=%v callpos=%v)", fwd.Offset, fwd.CallPos, rev.Offset, rev.CallPos))
		c.Check(fwd.Suffix == rev.Suffix && fwd.Suffix == ".go", "R04.1", "file suffix", pos, "both append .go", fmt.Sprintf("forward appends %q, reverse %q", fwd.Suffix, rev.Suffix))
		// file operand: the forward side hashes a base name; the reverse side must hash a base name as well
		fBase := contains(fwd.FileOps, "path/filepath.Base")
		rBase := contains(rev.FileOps, "path/filepath.Base") || !contains(rev.FileOps, "listedPackage.CompiledGoFiles[i]")
		c.Check(fBase == rBase, "R04.1", "file name operand", pos, "both hash the file's base name",
			fmt.Sprintf("forward hashes %v (a base name), reverse hashes %v: for files that go list reports with a directory (cgo-generated files in the build cache) the two strings differ and their positions are not reversed", fwd.FileOps, rev.FileOps))
	}

	// R04.2 ---------------------------------------------------------------
	c.Rule("R04.2", "names, fields and assembly files are hashed on the reverse side as on the forward side", 4)
	rv := w.Fn("commandReverse")
	if rv == nil {
		c.Undecided("R04.2", "commandReverse", "", "anchor function not found")
		return
	}
	revFns := map[*ssa.Function]bool{rv: true}
	for _, f := range rv.AnonFuncs {
		revFns[f] = true
	}
	// declarations: the helper closure hashes its argument with hashWithPackage(lpkg, str) and is fed FuncDecl / TypeSpec names
	declKinds := map[string]bool{}
	for f := range revFns {
		for _, b := range f.Blocks {
			for _, in := range b.Instrs {
				call, ok := in.(*ssa.Call)
				if !ok || len(call.Call.Args) != 1 {
					continue
				}
				sl := w.BackSlice(call.Call.Args[0], sliceOpt{})
				if sl.Fields["FuncDecl.Name"] && sl.Fields["Ident.Name"] {
					declKinds["FuncDecl"] = w.BackSlice(call.Call.Value, sliceOpt{}).Values != nil
				}
				if sl.Fields["TypeSpec.Name"] && sl.Fields["Ident.Name"] {
					declKinds["TypeSpec"] = true
				}
			}
		}
	}
	c.Check(declKinds["FuncDecl"] && declKinds["TypeSpec"], "R04.2", "declared names", w.Pos(rv.Pos()), "function and type names are added to the replacement list",
		fmt.Sprintf("reverse no longer maps names of %v", missing(declKinds, "FuncDecl", "TypeSpec")))
	// asm files
	asmFwd, asmRev := "", ""
	for _, cs := range w.CallsToFn(hwp) {
		v, _ := cs.Instr.(ssa.Value)
		if v == nil || v.Referrers() == nil {
			continue
		}
		for _, r := range *v.Referrers() {
			if bo, ok := r.(*ssa.BinOp); ok && bo.X == v {
				if s, _ := constString(bo.Y); s == ".s" {
					if revFns[cs.Fn] {
						asmRev = s
					} else if w.FuncName(cs.Fn) == "(*transformer).transformAsm" {
						asmFwd = s
					}
				}
			}
		}
	}
	c.Check(asmFwd == ".s" && asmRev == ".s", "R04.2", "assembly file names", w.Pos(rv.Pos()), "hashWithPackage(lpkg, name)+\".s\" on both sides",
		fmt.Sprintf("assembly file names are hashed differently (forward suffix %q, reverse suffix %q)", asmFwd, asmRev))
	// fields: hashWithStruct present on the reverse side (its operand shape is R15.2)
	fieldRev := false
	for _, cs := range w.CallsToFn(w.Fn("hashWithStruct")) {
		if revFns[cs.Fn] {
			fieldRev = true
		}
	}
	c.Check(fieldRev, "R04.2", "field names", w.Pos(rv.Pos()), "hashWithStruct(fieldToStruct[o], o) as in the compiler path (operands: C15 R15.2)", "reverse no longer maps field names with hashWithStruct")
	// import paths
	okPath := false
	for f := range revFns {
		for _, b := range f.Blocks {
			for _, in := range b.Instrs {
				if call, ok := in.(*ssa.Call); ok && len(call.Call.Args) == 1 {
					if w.BackSlice(call.Call.Args[0], sliceOpt{}).Fields["listedPackage.ImportPath"] && calleeName(call) == "" {
						okPath = true
					}
				}
			}
		}
	}
	c.Check(okPath, "R04.2", "import paths", w.Pos(rv.Pos()), "hashWithPackage(lpkg, lpkg.ImportPath)", "reverse no longer maps obfuscated import paths")

	// R04.3 ---------------------------------------------------------------
	c.Rule("R04.3", "replacement pairs are (hashed, original); the :1 key precedes its prefix", 5)
	nPairs := 0
	var specific, general ssa.Instruction
	for f := range revFns {
		for _, b := range f.Blocks {
			for _, in := range b.Instrs {
				call, ok := in.(*ssa.Call)
				if !ok || calleeName(call) != "builtin.append" {
					continue
				}
				elems := variadicElems(call.Call.Args[1])
				if len(elems) != 2 {
					continue
				}
				// is this an append to `replaces`?
				if !strings.Contains(valueDesc(call.Call.Args[0]), "replaces") && !w.BackSlice(call.Call.Args[0], sliceOpt{}).hasLocal("replaces") {
					continue
				}
				nPairs++
				k := w.BackSlice(elems[0], sliceOpt{})
				v := w.BackSlice(elems[1], sliceOpt{})
				kh := k.HasCall("mvdan.cc/garble.hashWithPackage") || k.HasCall("mvdan.cc/garble.hashWithStruct")
				vh := v.HasCall("mvdan.cc/garble.hashWithPackage") || v.HasCall("mvdan.cc/garble.hashWithStruct")
				key := fmt.Sprintf("%s pair #%d", w.FuncName(f), nPairs)
				c.Check(kh && !vh, "R04.3", key, w.Pos(call.Pos()), "old = hashed name, new = original", "a replacement pair is not (obfuscated, original): reverse would obfuscate instead of restoring, or replace nothing")
				if k.Consts[`":1"`] {
					specific = call
				} else if k.Consts[`".go"`] {
					general = call
				}
			}
		}
	}
	if specific != nil && general != nil {
		c.Check(dominatesInstr(specific, general), "R04.3", "X.go:1 before X.go", w.Pos(specific.Pos()), "the more specific key is listed first (strings.Replacer prefers earlier pairs)",
			"the generic file-name pair precedes the :1 pair: every reversed position loses its line number")
	} else {
		c.Bad("R04.3", "X.go:1 before X.go", w.Pos(rv.Pos()), "the two position pairs (with and without :1) were not both found")
	}

	// R04.4 ---------------------------------------------------------------
	c.Rule("R04.4", "every line read is written after replacement; exit status 1 iff nothing was modified", 2)
	rc := w.Fn("reverseContent")
	if rc == nil {
		c.Undecided("R04.4", "reverseContent", "", "anchor function not found")
	} else {
		var read, write ssa.Instruction
		for _, cs := range w.CallsTo("(*bufio.Reader).ReadString", "(*bufio.Reader).ReadLine", "(*bufio.Scanner).Scan") {
			if cs.Fn == rc {
				read = cs.Instr
			}
		}
		for _, cs := range w.CallsTo("io.WriteString", "(io.Writer).Write", "fmt.Fprint") {
			if cs.Fn == rc && w.BackSlice(cs.Args()[len(cs.Args())-1], sliceOpt{}).HasCall("(*strings.Replacer).Replace") {
				write = cs.Instr
			}
		}
		if read == nil || write == nil {
			c.Bad("R04.4", "reverseContent read/replace/write", w.Pos(rc.Pos()), "cannot find the read of a line and the write of its replacement")
		} else {
			bad := ""
			if !dominatesInstr(read, write) {
				bad = "the write does not follow the read on every path"
			}
			// no return between read and write: every return reachable from the read is dominated by the write
			for _, r := range returnsOf(rc) {
				if dominatesInstr(read, r) && !dominatesInstr(write, r) {
					bad = "the return at " + w.Pos(r.Pos()) + " is reached after a line was read but before it is written: a final line without newline (read together with io.EOF) is dropped"
				}
			}
			// the replaced text derives from the line just read
			ws := w.BackSlice(write.(ssa.CallInstruction).Common().Args[len(write.(ssa.CallInstruction).Common().Args)-1], sliceOpt{})
			if rv, ok := read.(ssa.Value); ok && !ws.Values[rv] {
				bad = "what is written does not derive from the line read"
			}
			c.Check(bad == "", "R04.4", "reverseContent writes every line it reads", w.Pos(write.Pos()), "read; replace; write; only then look at the read error", bad)
		}
	}
	// exit status: errJustExit(1) returns are exactly on !modified / !anyModified edges
	nExit, okExit := 0, true
	for _, r := range returnsOf(rv) {
		res := retResults(r)
		if len(res) != 1 {
			continue
		}
		mi, ok := res[0].(*ssa.MakeInterface)
		if !ok {
			continue
		}
		if n, isConst := constInt(mi.X); !isConst || n != 1 || !strings.HasSuffix(mi.X.Type().String(), "errJustExit") {
			continue
		}
		nExit++
		guarded := false
		for _, f := range edgeFacts(r.Block()) {
			nf := normFact(f)
			if !nf.Outcome && w.BackSlice(nf.V, sliceOpt{}).HasCall("mvdan.cc/garble.reverseContent") {
				guarded = true
			}
		}
		if !guarded {
			okExit = false
		}
	}
	c.Check(nExit == 2 && okExit, "R04.4", "exit status 1 iff nothing was replaced", w.Pos(rv.Pos()), "both input modes return errJustExit(1) on the false edge of 'modified'",
		fmt.Sprintf("found %d errJustExit(1) returns, all under !modified: %v — the exit status no longer tells whether anything was replaced", nExit, okExit))
	// success returns are under modified == true
	c.Rule("R04.5", "all listed packages are visited; only packages not selected for obfuscation are skipped", 2)
	var rng *ssa.Range
	for _, b := range rv.Blocks {
		for _, in := range b.Instrs {
			if r, ok := in.(*ssa.Range); ok && w.BackSlice(r.X, sliceOpt{}).HasCall("(*mvdan.cc/garble.listedPackages).all") {
				rng = r
			}
		}
	}
	if rng == nil {
		c.Bad("R04.5", "commandReverse visits ListedPackages.all()", w.Pos(rv.Pos()), "reverse no longer ranges over every listed package")
		return
	}
	c.OK("R04.5", "commandReverse visits ListedPackages.all()", w.Pos(rng.Pos()), "ranges over the full, decoded package map")
	// skips: inside the loop, edges that jump back to the header without passing the body's work: their conditions
	var header *ssa.BasicBlock
	for _, r := range *rng.Referrers() {
		if nx, ok := r.(*ssa.Next); ok {
			header = nx.Block()
		}
	}
	var skips []string
	if header != nil {
		body := loopBlocks(header)
		for b := range body {
			iff := ifOf(b)
			if iff == nil || b == header || isLoopHeader(b) {
				continue // the exit edge of an inner loop is not a skip
			}
			for i, sc := range b.Succs {
				if sc == header {
					nf := normFact(condFact{iff.Cond, i == 0})
					if p, ok := toObfuscateOf(nf.V); ok && !nf.Outcome {
						_ = p
						skips = append(skips, "!ToObfuscate")
					} else if _, _, isNil := nilTest(nf.V); isNil {
						// error handling paths return, they do not continue
					} else {
						skips = append(skips, condDesc(iff.Cond))
					}
				}
			}
		}
	}
	sort.Strings(skips)
	c.Check(len(skips) == 1 && skips[0] == "!ToObfuscate", "R04.5", "only non-selected packages are skipped", w.Pos(rng.Pos()), "the single 'continue' of the package loop is under !lpkg.ToObfuscate",
		fmt.Sprintf("the package loop skips on: %v", skips))
}

func contains(l []string, s string) bool {
	for _, x := range l {
		if x == s {
			return true
		}
	}
	return false
}

func missing(m map[string]bool, keys ...string) []string {
	var out []string
	for _, k := range keys {
		if !m[k] {
			out = append(out, k)
		}
	}
	return out
}

// hasLocal: the slice passes through a local variable (Alloc or phi) with this name.
func (s *Slice) hasLocal(name string) bool {
	for v := range s.Values {
		switch x := v.(type) {
		case *ssa.Alloc:
			if x.Comment == name {
				return true
			}
		case *ssa.Phi:
			if x.Comment == name {
				return true
			}
		case *ssa.FreeVar:
			if x.Name() == name {
				return true
			}
		}
	}
	return false
}

// checkCallAnchor is R04.6. The runtime attributes a call to the line of the called
// function's name / opening parenthesis, while (*ast.CallExpr).Pos() is the start of
// the call's first operand. garble keys a call by Pos() on both sides, which is fine,
// but the forward side must also attach the /*line H:1*/ directive at a token that
// sits where the call is reported: an identifier taken from the call's Fun (the
// selector's Sel, or the function identifier), or the parenthesis. Attaching it to
// "whichever identifier comes next in source order" puts it on the first line of the
// expression: for
//
//	t.First().
//		Boom()
//
// the call of Boom is reported one line below its directive, as H.go:2, a string the
// reverse table does not contain; calls whose Fun starts with another call share a
// single directive; and for go func(){...}() the directive lands inside the literal.
func checkCallAnchor(c *Ctx) {
	w := c.W
	c.Rule("R04.6", "a call's line directive is anchored at a token of the call itself (its Fun's name or parenthesis), not at the next identifier in source order", 1)
	pf := w.Fn("printFile")
	if pf == nil {
		c.Undecided("R04.6", "printFile call anchor", "", "printFile not found")
		return
	}
	usesPos, usesShape := false, false
	var at token.Pos
	fns := []*ssa.Function{pf}
	for name, fn := range w.funcs {
		if strings.HasPrefix(name, "printFile$") {
			fns = append(fns, fn)
		}
	}
	for _, fn := range fns {
		for _, b := range fn.Blocks {
			for _, in := range b.Instrs {
				switch x := in.(type) {
				case *ssa.Call:
					if calleeName(x) == "(*go/ast.CallExpr).Pos" {
						usesPos = true
						at = x.Pos()
					}
				case *ssa.FieldAddr:
					if namedOf(x.X.Type()) == "CallExpr" {
						switch fieldName(x.X.Type(), x.Field) {
						case "Fun", "Lparen", "Rparen":
							usesShape = true
						}
					}
				}
			}
		}
	}
	if !usesPos && !usesShape {
		c.Undecided("R04.6", "printFile call anchor", w.Pos(pf.Pos()), "printFile no longer looks at call expressions at all")
		return
	}
	c.Check(usesShape, "R04.6", "printFile call anchor", w.Pos(at), "the anchor is derived from the call's Fun or parenthesis",
		"printFile records a call's offset and hands it to the next identifier in source order: a call whose name or parenthesis is on a later line than the start of its first operand is reported at H.go:2, H.go:3, ... which garble reverse cannot map back")
}
