// garbleverif decides structural necessary conditions of the garble properties
// (C01..C20 in /verif/properties.jsonl) from /repo's current source, by static
// analysis only. See /verif/DESIGN.md.
package main

import (
	"flag"
	"fmt"
	"os"
	"runtime/debug"
	"sort"
	"strconv"
	"time"
)

// A propCheck runs the rules of one property on one loaded configuration.
type propCheck struct {
	id      string
	explain string
	// perConfig runs once per build configuration of /repo.
	perConfig func(c *Ctx)
	// once runs once per process (GOROOT analyses, embedded artefacts); may be nil.
	once func(c *Ctx)
}

var registry = map[string]*propCheck{}

func register(p *propCheck) { registry[p.id] = p }

func quickConfigs() []BuildConfig { return []BuildConfig{{GOOS: "linux", GOARCH: "amd64"}} }

func thoroughConfigs() []BuildConfig {
	return []BuildConfig{
		{GOOS: "linux", GOARCH: "amd64"},
		{GOOS: "linux", GOARCH: "amd64", Tags: "garble_testing"},
		{GOOS: "windows", GOARCH: "amd64"},
		{GOOS: "darwin", GOARCH: "arm64"},
		{GOOS: "linux", GOARCH: "386"},
	}
}

func main() {
	os.Exit(run())
}

func run() (code int) {
	// go/packages resolves the "go" binary through this process's PATH.
	os.Setenv("PATH", pickGoroot()+"/bin:"+os.Getenv("PATH"))
	os.Setenv("GOTOOLCHAIN", "local")
	os.Setenv("GOWORK", "off")
	os.Unsetenv("GOROOT")
	if len(os.Args) < 2 {
		fmt.Fprintln(os.Stderr, "usage: garbleverif check <ID> [-tier quick|thorough] [-repo /repo] [-verif /verif] | list")
		return 2
	}
	switch os.Args[1] {
	case "list":
		var ids []string
		for id := range registry {
			ids = append(ids, id)
		}
		sort.Strings(ids)
		for _, id := range ids {
			fmt.Println(id)
		}
		return 0
	case "dump":
		return debugDump("/repo", os.Args[2:])
	case "fsx":
		return debugFsx("/repo")
	case "exits":
		return debugExits("/repo")
	case "guards":
		return debugGuards("/repo")
	case "det":
		return debugDet("/repo")
	case "mutant":
		return runMutant(os.Args[2:])
	case "check":
	default:
		fmt.Fprintln(os.Stderr, "unknown command", os.Args[1])
		return 2
	}
	if len(os.Args) < 3 {
		fmt.Fprintln(os.Stderr, "check needs a property id")
		return 2
	}
	id := os.Args[2]
	fs := flag.NewFlagSet("check", flag.ExitOnError)
	tier := fs.String("tier", "quick", "quick or thorough")
	repo := fs.String("repo", "/repo", "path of the burrowers/garble tree to analyse")
	verif := fs.String("verif", "/verif", "path of the verification directory (evidence, tables)")
	fs.Parse(os.Args[3:])
	if t := os.Getenv("VERIF_TIER"); t != "" && !isFlagSet(fs, "tier") {
		*tier = t
	}
	seed, _ := strconv.Atoi(os.Getenv("VERIF_SEED")) // recorded, unused: nothing is random

	p := registry[id]
	if p == nil {
		fmt.Printf("ERROR no check registered for %s\n", id)
		return 2
	}
	return runCheck(p, *tier, *repo, *verif, seed)
}

func runCheck(p *propCheck, tier, repo, verif string, seed int) (code int) {
	id := p.id
	start := time.Now()
	c := newCtx(id, tier)
	c.Explain = p.explain
	verifDir = verif

	// A panic in the checker is a failed check, never a pass.
	defer func() {
		if r := recover(); r != nil {
			fmt.Printf("ERROR checker panic in %s: %v\n%s\n", id, r, debug.Stack())
			code = 2
		}
	}()

	configs := quickConfigs()
	if tier == "thorough" {
		configs = thoroughConfigs()
	}
	var cfgNames []string
	for _, bc := range configs {
		w, err := LoadRepo(repo, bc)
		if err != nil {
			fmt.Printf("ERROR %v\n", err)
			return 2
		}
		c.W = w
		c.Config = bc.String()
		cfgNames = append(cfgNames, bc.String())
		c.Count("configurations", 1)
		c.Counts["packages in closure ("+bc.String()+")"] = len(w.All)
		c.Counts["garble packages ("+bc.String()+")"] = len(w.Roots)
		c.Counts["garble functions ("+bc.String()+")"] = len(w.funcs)
		if p.perConfig != nil {
			p.perConfig(c)
		}
		if p.once != nil && bc.String() == defaultConfig {
			c.Config = defaultConfig
			p.once(c)
		}
		c.W = nil
	}
	lastCtx = c
	return c.finish(verif, start, seed, cfgNames)
}

var verifDir = "/verif"

// lastCtx is the context of the most recent check (read by the mutant self-test).
var lastCtx *Ctx

func isFlagSet(fs *flag.FlagSet, name string) bool {
	set := false
	fs.Visit(func(f *flag.Flag) {
		if f.Name == name {
			set = true
		}
	})
	return set
}
