package main

import (
	"go/constant"
	"go/token"
	"go/types"
	"sort"
	"strings"

	"golang.org/x/tools/go/ssa"
)

// E2 cfgread — which configuration does a piece of garble depend on?

// Specialised is a function with some values bound to constants: which blocks
// and edges stay live (a small sparse conditional constant propagation over
// booleans).
type Specialised struct {
	Fn    *ssa.Function
	Live  map[*ssa.BasicBlock]bool
	Edge  map[cfgEdge]bool
	Const map[ssa.Value]bool // boolean values known to be constant
	Val   map[ssa.Value]bool
}

// Specialise binds boolean parameters / call results (matched by pred) to constants.
func Specialise(fn *ssa.Function, bind func(v ssa.Value) (val bool, ok bool)) *Specialised {
	s := &Specialised{Fn: fn, Live: map[*ssa.BasicBlock]bool{}, Edge: map[cfgEdge]bool{}, Const: map[ssa.Value]bool{}, Val: map[ssa.Value]bool{}}
	if len(fn.Blocks) == 0 {
		return s
	}
	var eval func(v ssa.Value) (bool, bool)
	eval = func(v ssa.Value) (bool, bool) {
		if s.Const[v] {
			return s.Val[v], true
		}
		if b, ok := bind(v); ok {
			return b, true
		}
		switch x := v.(type) {
		case *ssa.Const:
			if x.Value != nil && x.Value.Kind() == constant.Bool {
				return constant.BoolVal(x.Value), true
			}
		case *ssa.UnOp:
			if x.Op == token.NOT {
				if b, ok := eval(x.X); ok {
					return !b, true
				}
			}
		case *ssa.Phi:
			// constant if all live incoming edges agree
			var have, val bool
			for i, e := range x.Edges {
				pred := x.Block().Preds[i]
				liveEdge := false
				for si, sc := range pred.Succs {
					if sc == x.Block() && s.Edge[cfgEdge{pred, si}] {
						liveEdge = true
					}
				}
				if !liveEdge {
					continue
				}
				b, ok := eval(e)
				if !ok {
					return false, false
				}
				if have && b != val {
					return false, false
				}
				have, val = true, b
			}
			if have {
				return val, true
			}
		}
		return false, false
	}
	changed := true
	s.Live[fn.Blocks[0]] = true
	for changed {
		changed = false
		for _, b := range fn.Blocks {
			if !s.Live[b] {
				continue
			}
			mark := func(i int) {
				e := cfgEdge{b, i}
				if !s.Edge[e] {
					s.Edge[e] = true
					changed = true
				}
				if !s.Live[b.Succs[i]] {
					s.Live[b.Succs[i]] = true
					changed = true
				}
			}
			if iff := ifOf(b); iff != nil {
				if v, ok := eval(iff.Cond); ok {
					s.Const[iff.Cond], s.Val[iff.Cond] = true, v
					if v {
						mark(0)
					} else {
						mark(1)
					}
					continue
				}
			}
			for i := range b.Succs {
				mark(i)
			}
		}
	}
	return s
}

// liveFacts: edge facts of a block restricted to live edges (conditions that
// are constant under the specialisation are dropped).
func (s *Specialised) liveFacts(b *ssa.BasicBlock) []condFact {
	var out []condFact
	for _, f := range edgeFacts(b) {
		if s.Const[f.V] {
			continue
		}
		out = append(out, f)
	}
	return out
}

// ---------------------------------------------------------------------------
// configuration items

// configItem names one piece of configuration: "flag:literals", "shared:GOGARBLE", "env:NAME", "var:literals.TestObfuscator".
type configRead struct {
	Item  string
	Fn    *ssa.Function
	Instr ssa.Instruction
}

// configGlobals discovers the package-level configuration variables structurally.
func configGlobals(w *World) map[*ssa.Global]string {
	out := map[*ssa.Global]string{}
	mainPkg := w.SSA[modulePath]
	// variables registered on a flag.FlagSet
	w.forEachInstr(func(fn *ssa.Function, in ssa.Instruction) {
		ci, ok := in.(ssa.CallInstruction)
		if !ok {
			return
		}
		n := calleeName(ci)
		if !strings.HasPrefix(n, "(*flag.FlagSet).") {
			return
		}
		args := ci.Common().Args
		for i, a := range args {
			g, ok := a.(*ssa.Global)
			if !ok {
				if mi, ok2 := a.(*ssa.MakeInterface); ok2 {
					g, ok = mi.X.(*ssa.Global)
				}
			}
			if ok && g.Pkg == mainPkg && i+1 < len(args) {
				if name, isStr := constString(args[i+1]); isStr {
					out[g] = "flag:" + name
				}
			}
		}
	})
	// package variables initialised from os.Getenv
	for _, p := range w.SSA {
		init := p.Func("init")
		if init == nil {
			continue
		}
		for _, b := range init.Blocks {
			for _, in := range b.Instrs {
				st, ok := in.(*ssa.Store)
				if !ok {
					continue
				}
				g, ok := st.Addr.(*ssa.Global)
				if !ok {
					continue
				}
				sl := w.BackSlice(st.Val, sliceOpt{})
				for _, cv := range sl.Calls["os.Getenv"] {
					if key, ok := constString(cv.(*ssa.Call).Call.Args[0]); ok {
						out[g] = "env:" + key
					}
				}
			}
		}
	}
	// exported basic-typed variables of internal packages that another package
	// of the module reads: a cross-package configuration channel
	for path, p := range w.SSA {
		if path == modulePath {
			continue
		}
		for _, m := range p.Members {
			g, ok := m.(*ssa.Global)
			if !ok || !token.IsExported(g.Name()) {
				continue
			}
			if _, isBasic := g.Type().(*types.Pointer).Elem().Underlying().(*types.Basic); !isBasic {
				continue
			}
			cross := false
			w.forEachInstr(func(fn *ssa.Function, in ssa.Instruction) {
				if ld, ok := in.(*ssa.UnOp); ok && ld.X == ssa.Value(g) && fn.Pkg != p {
					cross = true
				}
			})
			if cross {
				out[g] = "var:" + shortPkg(path) + "." + g.Name()
			}
		}
	}
	return out
}

// configReads lists every read of a configuration item inside the given functions.
func configReads(w *World, fns map[*ssa.Function]bool, globals map[*ssa.Global]string) []configRead {
	var out []configRead
	var list []*ssa.Function
	for f := range fns {
		list = append(list, f)
	}
	sort.Slice(list, func(i, j int) bool { return w.FuncName(list[i]) < w.FuncName(list[j]) })
	for _, fn := range list {
		for _, b := range fn.Blocks {
			for _, in := range b.Instrs {
				switch x := in.(type) {
				case *ssa.UnOp:
					if x.Op != token.MUL {
						continue
					}
					if g, ok := x.X.(*ssa.Global); ok {
						if item, ok := globals[g]; ok {
							out = append(out, configRead{item, fn, in})
						}
					}
				case *ssa.FieldAddr:
					if g, ok := x.X.(*ssa.Global); ok {
						if item, ok := globals[g]; ok {
							out = append(out, configRead{item, fn, in})
						}
					}
					if tn := namedOf(x.X.Type()); tn == "sharedCacheType" {
						out = append(out, configRead{"shared:" + fieldName(x.X.Type(), x.Field), fn, in})
					}
					if tn := namedOf(x.X.Type()); tn == "" {
						// the anonymous GoEnv struct
						if fa, ok := x.X.(*ssa.FieldAddr); ok && namedOf(fa.X.Type()) == "sharedCacheType" {
							out = append(out, configRead{"shared:GoEnv." + fieldName(x.X.Type(), x.Field), fn, in})
						}
					}
				case ssa.CallInstruction:
					n := calleeName(x)
					if n == "os.Getenv" || n == "os.LookupEnv" {
						if key, ok := constString(x.Common().Args[0]); ok {
							out = append(out, configRead{"env:" + key, fn, in})
						} else {
							out = append(out, configRead{"env:<dynamic>", fn, in})
						}
					}
					// method calls on a config struct value (flagSeed.present())
					for _, a := range x.Common().Args {
						if ld, ok := a.(*ssa.UnOp); ok && ld.Op == token.MUL {
							if g, ok := ld.X.(*ssa.Global); ok {
								_ = g
							}
						}
					}
				}
			}
		}
	}
	// "shared:GoEnv" itself is an intermediate address, drop it when a sub-field read exists
	var filtered []configRead
	for _, r := range out {
		if r.Item == "shared:GoEnv" {
			continue
		}
		filtered = append(filtered, r)
	}
	return filtered
}

// hashedConfig computes the configuration items that influence what
// addGarbleToHash feeds to the hasher, with appendFlags specialised for
// forBuildHash=true: items data-flowing into a live write, or deciding whether
// a live write happens.
func hashedConfig(w *World, globals map[*ssa.Global]string) (map[string]string, []string) {
	hashed := map[string]string{}
	var problems []string
	agh := w.Fn("addGarbleToHash")
	af := w.Fn("appendFlags")
	if agh == nil || af == nil {
		return hashed, []string{"addGarbleToHash or appendFlags not found"}
	}
	// appendFlags must be called from addGarbleToHash with a constant true
	bound := false
	for _, cs := range w.CallsToFn(af) {
		if cs.Fn == agh {
			if b, ok := constBool(cs.Args()[1]); ok && b {
				bound = true
			}
		}
	}
	if !bound {
		problems = append(problems, "addGarbleToHash no longer calls appendFlags(hasher, true)")
	}
	collect := func(fn *ssa.Function, sp *Specialised) {
		for _, b := range fn.Blocks {
			if !sp.Live[b] {
				continue
			}
			for _, in := range b.Instrs {
				ci, ok := in.(ssa.CallInstruction)
				if !ok {
					continue
				}
				n := calleeName(ci)
				isWrite := n == "io.WriteString" || n == "(io.Writer).Write" || n == "(hash.Hash).Write" || n == "fmt.Fprintf" || n == "fmt.Fprint"
				if !isWrite {
					continue
				}
				where := w.Pos(in.Pos())
				vals := []ssa.Value{}
				args := ci.Common().Args
				if n == "fmt.Fprintf" || n == "fmt.Fprint" || n == "io.WriteString" {
					vals = append(vals, args[1:]...)
				} else {
					vals = append(vals, args...)
				}
				for _, f := range sp.liveFacts(b) {
					vals = append(vals, f.V)
				}
				for _, v := range vals {
					sl := w.BackSlice(v, sliceOpt{Depth: 2, IntoCallees: true, StopGlobals: []string{"main.sharedCache"}})
					for val := range sl.Values {
						switch x := val.(type) {
						case *ssa.Global:
							if item, ok := globals[x]; ok {
								hashed[item] = where
							}
						case *ssa.FieldAddr:
							if namedOf(x.X.Type()) == "sharedCacheType" {
								hashed["shared:"+fieldName(x.X.Type(), x.Field)] = where
							}
						}
					}
				}
			}
		}
	}
	none := func(ssa.Value) (bool, bool) { return false, false }
	collect(agh, Specialise(agh, none))
	spAF := Specialise(af, func(v ssa.Value) (bool, bool) {
		if p, ok := v.(*ssa.Parameter); ok && p.Name() == "forBuildHash" {
			return true, true
		}
		return false, false
	})
	collect(af, spAF)
	// function literals created in live blocks (range-over-func bodies)
	for _, anon := range af.AnonFuncs {
		live := false
		var controls []ssa.Value
		for _, b := range af.Blocks {
			for _, in := range b.Instrs {
				if mc, ok := in.(*ssa.MakeClosure); ok && mc.Fn == ssa.Value(anon) && spAF.Live[b] {
					live = true
					for _, f := range spAF.liveFacts(b) {
						controls = append(controls, f.V)
					}
				}
			}
		}
		if !live {
			continue
		}
		collect(anon, Specialise(anon, none))
		// whatever decides that the literal runs also decides its writes
		for _, v := range controls {
			sl := w.BackSlice(v, sliceOpt{Depth: 2, IntoCallees: true, StopGlobals: []string{"main.sharedCache"}})
			for val := range sl.Values {
				if g, ok := val.(*ssa.Global); ok {
					if item, ok := globals[g]; ok && hashed[item] == "" {
						hashed[item] = w.Pos(anon.Pos())
					}
				}
			}
		}
	}
	return hashed, problems
}
