package main

import (
	"go/types"
	"sort"

	"golang.org/x/tools/go/ssa"
)

// ModGraph is a conservative call graph over module functions: static calls,
// closures created (an edge from the creator), and dynamic calls resolved to
// every address-taken module function with an identical signature.
type ModGraph struct {
	w     *World
	Edges map[*ssa.Function]map[*ssa.Function]bool
	// Ext lists the external (non-module) callees of each function by name.
	Ext map[*ssa.Function]map[string][]ssa.CallInstruction
	// addrTaken: module functions used as values.
	addrTaken []*ssa.Function
}

func (w *World) isModuleFn(fn *ssa.Function) bool {
	for fn != nil && fn.Parent() != nil {
		fn = fn.Parent()
	}
	if fn == nil {
		return false
	}
	if fn.Pkg == nil {
		// instantiations and wrappers: use the origin's package
		if o := fn.Origin(); o != nil && o.Pkg != nil {
			return w.SSA[o.Pkg.Pkg.Path()] != nil
		}
		return false
	}
	return w.SSA[fn.Pkg.Pkg.Path()] != nil
}

func (w *World) Graph() *ModGraph {
	g := &ModGraph{w: w, Edges: map[*ssa.Function]map[*ssa.Function]bool{}, Ext: map[*ssa.Function]map[string][]ssa.CallInstruction{}}
	taken := map[*ssa.Function]bool{}
	funcs := w.ModuleFuncs()
	for _, fn := range funcs {
		for _, b := range fn.Blocks {
			for _, in := range b.Instrs {
				for _, op := range in.Operands(nil) {
					if f, ok := (*op).(*ssa.Function); ok && w.isModuleFn(f) {
						if ci, isCall := in.(ssa.CallInstruction); isCall && ci.Common().Value == ssa.Value(f) {
							continue
						}
						if _, isMC := in.(*ssa.MakeClosure); isMC {
							continue
						}
						taken[f] = true
					}
				}
			}
		}
	}
	// package-level initialisers live in init; globals holding funcs counted above
	for f := range taken {
		g.addrTaken = append(g.addrTaken, f)
	}
	sort.Slice(g.addrTaken, func(i, j int) bool { return w.FuncName(g.addrTaken[i]) < w.FuncName(g.addrTaken[j]) })

	add := func(from, to *ssa.Function) {
		if g.Edges[from] == nil {
			g.Edges[from] = map[*ssa.Function]bool{}
		}
		g.Edges[from][to] = true
	}
	for _, fn := range funcs {
		for _, b := range fn.Blocks {
			for _, in := range b.Instrs {
				if mc, ok := in.(*ssa.MakeClosure); ok {
					if f, ok := mc.Fn.(*ssa.Function); ok {
						add(fn, f)
					}
				}
				ci, ok := in.(ssa.CallInstruction)
				if !ok {
					continue
				}
				cc := ci.Common()
				if callee := cc.StaticCallee(); callee != nil {
					if w.isModuleFn(callee) {
						if o := callee.Origin(); o != nil {
							callee = o
						}
						add(fn, callee)
					} else {
						if g.Ext[fn] == nil {
							g.Ext[fn] = map[string][]ssa.CallInstruction{}
						}
						n := calleeName(ci)
						g.Ext[fn][n] = append(g.Ext[fn][n], ci)
					}
					continue
				}
				if cc.IsInvoke() {
					if g.Ext[fn] == nil {
						g.Ext[fn] = map[string][]ssa.CallInstruction{}
					}
					n := calleeName(ci)
					g.Ext[fn][n] = append(g.Ext[fn][n], ci)
					// module methods implementing the interface method
					for _, cand := range funcs {
						if cand.Signature.Recv() != nil && cand.Name() == cc.Method.Name() {
							if types.Implements(cand.Signature.Recv().Type(), cc.Value.Type().Underlying().(*types.Interface)) {
								add(fn, cand)
							}
						}
					}
					continue
				}
				if _, isBuiltin := cc.Value.(*ssa.Builtin); isBuiltin {
					continue
				}
				// dynamic call: any address-taken function of identical signature
				sig, _ := cc.Value.Type().Underlying().(*types.Signature)
				for _, cand := range g.addrTaken {
					if sig != nil && identicalSigIgnoringRecv(cand.Signature, sig) {
						add(fn, cand)
					}
				}
			}
		}
	}
	return g
}

func identicalSigIgnoringRecv(a, b *types.Signature) bool {
	// a may be a method (bound or expression form)
	if types.Identical(types.NewSignatureType(nil, nil, nil, a.Params(), a.Results(), a.Variadic()),
		types.NewSignatureType(nil, nil, nil, b.Params(), b.Results(), b.Variadic())) {
		return true
	}
	if a.Recv() != nil {
		// method expression: receiver becomes the first parameter
		vars := []*types.Var{a.Recv()}
		for i := 0; i < a.Params().Len(); i++ {
			vars = append(vars, a.Params().At(i))
		}
		return types.Identical(types.NewSignatureType(nil, nil, nil, types.NewTuple(vars...), a.Results(), a.Variadic()),
			types.NewSignatureType(nil, nil, nil, b.Params(), b.Results(), b.Variadic()))
	}
	return false
}

// Reach returns the module functions reachable from the roots, with one
// predecessor per function for printing call chains.
func (g *ModGraph) Reach(roots ...*ssa.Function) (map[*ssa.Function]bool, map[*ssa.Function]*ssa.Function) {
	seen := map[*ssa.Function]bool{}
	pred := map[*ssa.Function]*ssa.Function{}
	var queue []*ssa.Function
	for _, r := range roots {
		if r != nil && !seen[r] {
			seen[r] = true
			queue = append(queue, r)
		}
	}
	for len(queue) > 0 {
		fn := queue[0]
		queue = queue[1:]
		var next []*ssa.Function
		for to := range g.Edges[fn] {
			next = append(next, to)
		}
		sort.Slice(next, func(i, j int) bool { return g.w.FuncName(next[i]) < g.w.FuncName(next[j]) })
		for _, to := range next {
			if !seen[to] {
				seen[to] = true
				pred[to] = fn
				queue = append(queue, to)
			}
		}
	}
	return seen, pred
}

func (g *ModGraph) Chain(pred map[*ssa.Function]*ssa.Function, fn *ssa.Function) string {
	var parts []string
	for f := fn; f != nil; f = pred[f] {
		parts = append([]string{g.w.FuncName(f)}, parts...)
		if len(parts) > 12 {
			break
		}
	}
	s := ""
	for i, p := range parts {
		if i > 0 {
			s += " -> "
		}
		s += p
	}
	return s
}
