package main

import (
	"fmt"
	"go/constant"
	"go/token"
	"go/types"
	"sort"
	"strings"

	"golang.org/x/tools/go/ssa"
)

func init() {
	register(&propCheck{
		id: "C05",
		explain: "Decides the operator-algebra and pairing clauses behind 'obfuscated literals evaluate to their original values': " +
			"(R05.1) the encode table (evalOperator) and the emitted-decode table (operatorToReversedBinaryExpr) are read off the SSA and checked to be inverses exhaustively over all 256x256 byte pairs for every operator token; " +
			"(R05.2) every token randOperator can draw has a case in both tables and both defaults panic; " +
			"(R05.3) every randOperator draw flows both into an encode (evalOperator) and into the matching emitted decode (operatorToReversedBinaryExpr), and nothing else feeds their operator operand; " +
			"(R05.4) dataToByteSliceWithExtKeys reverses the emitted statements after the loop and before assembling the function literal; " +
			"(R05.5) the size window is [8, 2048] and the string path, the composite-literal path and pickObfuscator all use it; " +
			"(R05.6) the literal obfuscator skips exactly //go:nosplit functions, const declarations, -ldflags=-X variables and constant expressions of a non-string kind (array lengths and the like must stay constant), and the -X variable set is computed whenever -literals is on. " +
			"(R05.7) the []byte an obfuscated slice literal evaluates to is clipped to its length (a composite literal has no spare capacity, so appends to it never alias). " +
			"Does not decide decode(encode(x)) = x for any obfuscator: key placement, index arithmetic and chunk order are value-level.",
		perConfig: checkC05,
	})
}

const litPkg = "mvdan.cc/garble/internal/literals."

// opCase is one case of an operator table.
type opCase struct {
	Tok token.Token
	Op  token.Token // the operator applied / emitted
	XY  bool        // operands in (x, y) order
	Pos token.Pos
}

// caseToken: the token a block is specialised to by "t == CONST" edge facts.
func caseToken(b *ssa.BasicBlock, param *ssa.Parameter) (token.Token, bool) {
	for _, f := range edgeFacts(b) {
		if !f.Outcome {
			continue
		}
		bo, ok := f.V.(*ssa.BinOp)
		if !ok || bo.Op != token.EQL || bo.X != ssa.Value(param) {
			continue
		}
		if n, ok := constInt(bo.Y); ok {
			return token.Token(n), true
		}
	}
	return 0, false
}

func evalByteOp(op token.Token, a, b uint8) (uint8, bool) {
	switch op {
	case token.ADD:
		return a + b, true
	case token.SUB:
		return a - b, true
	case token.XOR:
		return a ^ b, true
	case token.MUL:
		return a * b, true
	case token.AND:
		return a & b, true
	case token.OR:
		return a | b, true
	case token.AND_NOT:
		return a &^ b, true
	}
	return 0, false
}

func checkC05(c *Ctx) {
	w := c.W
	c.Rule("R05.1", "encode and emitted-decode operator tables are inverses over all byte pairs", 3)
	c.Rule("R05.2", "every operator randOperator can draw is handled by both tables; unknown operators panic", 5)
	enc := w.Fn("literals.evalOperator")
	dec := w.Fn("literals.operatorToReversedBinaryExpr")
	rnd := w.Fn("literals.randOperator")
	if enc == nil || dec == nil || rnd == nil {
		c.Undecided("R05.1", "literals operator functions", "", "evalOperator, operatorToReversedBinaryExpr or randOperator not found")
		return
	}
	// encode table
	encTab := map[token.Token]opCase{}
	encDefaultPanics := false
	for _, b := range enc.Blocks {
		switch t := b.Instrs[len(b.Instrs)-1].(type) {
		case *ssa.Return:
			tok, ok := caseToken(b, enc.Params[0])
			bo, isBin := t.Results[0].(*ssa.BinOp)
			if !ok || !isBin {
				c.Undecided("R05.1", "evalOperator return", w.Pos(t.Pos()), "a return that is not 'case T: return x OP y'")
				continue
			}
			oc := opCase{Tok: tok, Op: bo.Op, Pos: t.Pos()}
			switch {
			case bo.X == ssa.Value(enc.Params[1]) && bo.Y == ssa.Value(enc.Params[2]):
				oc.XY = true
			case bo.X == ssa.Value(enc.Params[2]) && bo.Y == ssa.Value(enc.Params[1]):
				oc.XY = false
			default:
				c.Undecided("R05.1", "evalOperator case "+tok.String(), w.Pos(t.Pos()), "operands are not the two byte parameters")
				continue
			}
			encTab[tok] = oc
		case *ssa.Panic:
			if _, ok := caseToken(b, enc.Params[0]); !ok {
				encDefaultPanics = true
			}
		}
	}
	// decode table: phi of operator constants feeding asthelper.BinaryExpr(x, op, y)
	decTab := map[token.Token]opCase{}
	decDefaultPanics := false
	for _, b := range dec.Blocks {
		for _, in := range b.Instrs {
			call, ok := in.(*ssa.Call)
			if !ok || calleeName(call) != "mvdan.cc/garble/internal/asthelper.BinaryExpr" {
				continue
			}
			xy := call.Call.Args[0] == ssa.Value(dec.Params[1]) && call.Call.Args[2] == ssa.Value(dec.Params[2])
			yx := call.Call.Args[0] == ssa.Value(dec.Params[2]) && call.Call.Args[2] == ssa.Value(dec.Params[1])
			if !xy && !yx {
				c.Undecided("R05.1", "operatorToReversedBinaryExpr operands", w.Pos(call.Pos()), "the emitted expression is not built from the two operand parameters")
				continue
			}
			record := func(tok token.Token, v ssa.Value, pos token.Pos) {
				n, ok := constInt(v)
				if !ok {
					c.Undecided("R05.1", "operatorToReversedBinaryExpr case "+tok.String(), w.Pos(pos), "emitted operator is not a constant")
					return
				}
				decTab[tok] = opCase{Tok: tok, Op: token.Token(n), XY: xy, Pos: pos}
			}
			switch op := call.Call.Args[1].(type) {
			case *ssa.Phi:
				for i, e := range op.Edges {
					pred := op.Block().Preds[i]
					tok, ok := caseToken(pred, dec.Params[0])
					if !ok {
						c.Undecided("R05.1", "operatorToReversedBinaryExpr phi edge", w.Pos(call.Pos()), "an emitted operator that is not selected by 'case T:'")
						continue
					}
					record(tok, e, call.Pos())
				}
			default:
				if tok, ok := caseToken(b, dec.Params[0]); ok {
					record(tok, op, call.Pos())
				} else {
					c.Undecided("R05.1", "operatorToReversedBinaryExpr operator", w.Pos(call.Pos()), "emitted operator not selected by the token")
				}
			}
		}
		if _, ok := b.Instrs[len(b.Instrs)-1].(*ssa.Panic); ok {
			if _, ok := caseToken(b, dec.Params[0]); !ok {
				decDefaultPanics = true
			}
		}
	}
	var toks []token.Token
	seenTok := map[token.Token]bool{}
	for t := range encTab {
		if !seenTok[t] {
			seenTok[t] = true
			toks = append(toks, t)
		}
	}
	for t := range decTab {
		if !seenTok[t] {
			seenTok[t] = true
			toks = append(toks, t)
		}
	}
	sort.Slice(toks, func(i, j int) bool { return toks[i] < toks[j] })
	pairs := 0
	for _, t := range toks {
		e, okE := encTab[t]
		d, okD := decTab[t]
		key := "operator " + t.String()
		if !okE || !okD {
			c.Bad("R05.1", key, w.Pos(enc.Pos()), fmt.Sprintf("%s has an encode case: %v, an emitted decode case: %v — an operator handled on one side only", t, okE, okD))
			continue
		}
		bad := ""
		for x := 0; x < 256 && bad == ""; x++ {
			for y := 0; y < 256; y++ {
				var ev uint8
				var ok1, ok2 bool
				if e.XY {
					ev, ok1 = evalByteOp(e.Op, uint8(x), uint8(y))
				} else {
					ev, ok1 = evalByteOp(e.Op, uint8(y), uint8(x))
				}
				var back uint8
				if d.XY {
					back, ok2 = evalByteOp(d.Op, ev, uint8(y))
				} else {
					back, ok2 = evalByteOp(d.Op, uint8(y), ev)
				}
				pairs++
				if !ok1 || !ok2 {
					bad = fmt.Sprintf("operator %s or %s is not a byte operator the checker can evaluate", e.Op, d.Op)
					break
				}
				if back != uint8(x) {
					bad = fmt.Sprintf("encode is x %s key, emitted decode is enc %s key: for x=%d key=%d the decoded byte is %d", e.Op, d.Op, x, y, back)
					break
				}
			}
		}
		if bad != "" {
			c.Bad("R05.1", key, w.Pos(d.Pos), bad)
		} else {
			c.OK("R05.1", key, w.Pos(d.Pos), fmt.Sprintf("encode: x %s k; decode: e %s k; identity on all 65536 (x,k)", e.Op, d.Op))
		}
	}
	c.Count("byte pairs evaluated", pairs)
	c.exhaust = true
	c.Check(encDefaultPanics, "R05.2", "evalOperator default", w.Pos(enc.Pos()), "unknown operators panic", "evalOperator silently accepts unknown operators")
	c.Check(decDefaultPanics, "R05.2", "operatorToReversedBinaryExpr default", w.Pos(dec.Pos()), "unknown operators panic", "operatorToReversedBinaryExpr silently accepts unknown operators")
	// randOperator's tokens
	nTok := 0
	for _, b := range rnd.Blocks {
		for _, in := range b.Instrs {
			st, ok := in.(*ssa.Store)
			if !ok {
				continue
			}
			n, ok := constInt(st.Val)
			if !ok {
				continue
			}
			if _, isIdx := st.Addr.(*ssa.IndexAddr); !isIdx {
				continue
			}
			nTok++
			t := token.Token(n)
			_, okE := encTab[t]
			_, okD := decTab[t]
			c.Check(okE && okD, "R05.2", "randOperator draws "+t.String(), w.Pos(st.Pos()), "handled by both tables", fmt.Sprintf("%s can be drawn but has encode case %v, decode case %v", t, okE, okD))
		}
	}
	if nTok == 0 {
		c.Undecided("R05.2", "randOperator tokens", w.Pos(rnd.Pos()), "cannot read the operator list of randOperator")
	}

	// R05.3 pairing ---------------------------------------------------------
	c.Rule("R05.3", "every operator draw reaches both an encode and the matching emitted decode", 6)
	drawSites := w.CallsToFn(rnd)
	type flow struct{ enc, dec bool }
	flows := map[ssa.Instruction]*flow{}
	for _, cs := range drawSites {
		flows[cs.Instr] = &flow{}
	}
	rootsOf := func(v ssa.Value) []ssa.Instruction {
		sl := w.BackSlice(v, sliceOpt{Depth: 3, ToCallers: true})
		var out []ssa.Instruction
		for _, cv := range sl.Calls[litPkg+"randOperator"] {
			if in, ok := cv.(ssa.Instruction); ok {
				out = append(out, in)
			}
		}
		return out
	}
	for _, side := range []struct {
		fn  *ssa.Function
		enc bool
	}{{enc, true}, {dec, false}} {
		for _, cs := range w.CallsToFn(side.fn) {
			roots := rootsOf(cs.Args()[0])
			name := "evalOperator"
			if !side.enc {
				name = "operatorToReversedBinaryExpr"
			}
			if len(roots) != 1 {
				c.Bad("R05.3", fmt.Sprintf("%s: operator operand of %s", w.FuncName(cs.Fn), name), w.Pos(cs.Instr.Pos()),
					fmt.Sprintf("the operator passed to %s comes from %d randOperator draws (expected exactly one): encode and decode can disagree", name, len(roots)))
				continue
			}
			if f := flows[roots[0]]; f != nil {
				if side.enc {
					f.enc = true
				} else {
					f.dec = true
				}
			}
		}
	}
	perFn := map[string]int{}
	for _, cs := range drawSites {
		name := w.FuncName(cs.Fn)
		perFn[name]++
		key := fmt.Sprintf("%s randOperator draw #%d", name, perFn[name])
		f := flows[cs.Instr]
		c.Check(f.enc && f.dec, "R05.3", key, w.Pos(cs.Instr.Pos()), "reaches evalOperator and operatorToReversedBinaryExpr",
			fmt.Sprintf("this draw reaches an encode: %v, an emitted decode: %v — the two sides of this obfuscator use different operators", f.enc, f.dec))
	}

	// R05.4 -----------------------------------------------------------------
	c.Rule("R05.4", "dataToByteSliceWithExtKeys reverses the emitted statements", 1)
	if fn := w.Fn("literals.dataToByteSliceWithExtKeys"); fn == nil {
		c.Undecided("R05.4", "dataToByteSliceWithExtKeys", "", "anchor function not found")
	} else {
		ok, why := false, "no call to slices.Reverse"
		for _, cs := range w.CallsTo("slices.Reverse") {
			if cs.Fn != fn {
				continue
			}
			sl := w.BackSlice(cs.Args()[0], sliceOpt{})
			switch {
			case !sl.HasCall(litPkg + "operatorToReversedBinaryExpr"):
				why = "the reversed slice does not hold the emitted decode statements"
			case loopHeaderOf(cs.Instr.Block()) != nil:
				why = "the reversal is inside the loop"
			case !dominatesAllReturns(cs.Instr, fn):
				why = "the reversal does not dominate the return"
			default:
				ok = true
			}
		}
		c.Check(ok, "R05.4", "dataToByteSliceWithExtKeys slices.Reverse", w.Pos(fn.Pos()), "reversed once, after the loop, before the function literal is assembled",
			"several operations may hit the same byte; without undoing them in reverse order the decoded byte differs: "+why)
	}

	// R05.5 -----------------------------------------------------------------
	c.Rule("R05.5", "size window [8, 2048] used by the string path, the composite path and pickObfuscator", 5)
	constVal := func(name string) (int64, bool) {
		cst, ok := w.Object("literals", name).(*types.Const)
		if !ok {
			return 0, false
		}
		return constant.Int64Val(cst.Val())
	}
	minS, ok1 := constVal("MinSize")
	maxS, ok2 := constVal("MaxSize")
	maxE, ok3 := constVal("MaxSizeExpensive")
	if !ok1 || !ok2 || !ok3 {
		c.Undecided("R05.5", "window constants", "", "MinSize/MaxSize/MaxSizeExpensive not found")
	} else {
		c.Check(minS == 8 && maxS == 2048, "R05.5", "window constants", "", "MinSize=8, MaxSize=2048 as documented", fmt.Sprintf("MinSize=%d MaxSize=%d differ from the documented window (8 bytes to 2 KiB)", minS, maxS))
		c.Check(minS <= maxE && maxE <= maxS, "R05.5", "MaxSizeExpensive inside the window", "", fmt.Sprintf("%d <= %d <= %d", minS, maxE, maxS), fmt.Sprintf("MaxSizeExpensive=%d is outside [%d,%d]", maxE, minS, maxS))
		for _, name := range []string{"literals.Obfuscate$2", "literals.handleCompositeLiteral", "literals.(*obfRand).pickObfuscator"} {
			fn := w.Fn(name)
			if fn == nil {
				c.Undecided("R05.5", name+" size guard", "", "function not found")
				continue
			}
			lo, hi := false, false
			for _, b := range fn.Blocks {
				for _, in := range b.Instrs {
					bo, ok := in.(*ssa.BinOp)
					if !ok {
						continue
					}
					call, isCall := bo.X.(*ssa.Call)
					if !isCall && name != "literals.(*obfRand).pickObfuscator" {
						continue
					}
					if isCall && calleeName(call) != "builtin.len" {
						continue
					}
					if n, ok := constInt(bo.Y); ok {
						if bo.Op == token.LSS && n == minS {
							lo = true
						}
						if bo.Op == token.GTR && n == maxS {
							hi = true
						}
					}
				}
			}
			c.Check(lo && hi, "R05.5", name+" size guard", w.Pos(fn.Pos()), fmt.Sprintf("tests len < %d and len > %d", minS, maxS),
				fmt.Sprintf("%s no longer guards with both bounds of the window (lower: %v, upper: %v): the two literal paths or the obfuscator picker disagree about which sizes are handled", name, lo, hi))
		}
	}

	checkLiteralSkips(c, "R05.6")
	checkSliceClipped(c)
}

// checkLiteralSkips: the pre-callback of literals.Obfuscate returns false in exactly three situations.
func checkLiteralSkips(c *Ctx, rule string) {
	w := c.W
	c.Rule(rule, "literal obfuscation skips exactly: //go:nosplit functions, const declarations, -ldflags=-X variables, constant expressions of a non-string kind", 5)
	pre := w.Fn("literals.Obfuscate$1")
	if pre == nil {
		c.Undecided(rule, "literals.Obfuscate pre-callback", "", "closure not found")
		return
	}
	found := map[string]bool{}
	for _, r := range returnsOf(pre) {
		b, ok := constBool(r.Results[0])
		if !ok {
			c.Undecided(rule, "pre-callback return", w.Pos(r.Pos()), "non-constant result")
			continue
		}
		if b {
			continue
		}
		kind := ""
		// "the node is an expression whose recorded constant value is non-nil and not a string":
		// such an expression is folded by the compiler and may have to stay constant
		// (array lengths, shifts of untyped constants, ...), so nothing below it is rewritten
		valueNonNil, kindNotString := false, false
		for _, f := range edgeFacts(r.Block()) {
			nf := normFact(f)
			bo, ok := nf.V.(*ssa.BinOp)
			if !ok {
				continue
			}
			if v, nonNil, isNil := nilTest(bo); isNil && nf.Outcome == nonNil {
				if fld, ok := v.(*ssa.Field); ok && fieldName(fld.X.Type(), fld.Field) == "Value" && namedOf(fld.X.Type()) == "TypeAndValue" {
					if lk, ok := fld.X.(*ssa.Lookup); ok && w.BackSlice(lk.X, sliceOpt{}).Fields["Info.Types"] {
						valueNonNil = true
					}
				}
			}
			if call, ok := bo.X.(*ssa.Call); ok && call.Call.IsInvoke() && call.Call.Method.Name() == "Kind" {
				if n, ok := constInt(bo.Y); ok && constant.Kind(n) == constant.String {
					if (bo.Op == token.NEQ && nf.Outcome) || (bo.Op == token.EQL && !nf.Outcome) {
						kindNotString = true
					}
				}
			}
		}
		if valueNonNil && kindNotString {
			kind = "constant-expression"
		}
		for _, f := range edgeFacts(r.Block()) {
			if !f.Outcome || kind != "" {
				continue
			}
			switch x := f.V.(type) {
			case *ssa.Call:
				if calleeName(x) == "strings.HasPrefix" {
					if s, ok := constString(x.Call.Args[1]); ok && s == "//go:nosplit" {
						kind = "nosplit"
					}
				}
			case *ssa.BinOp:
				if n, ok := constInt(x.Y); ok && x.Op == token.EQL && token.Token(n) == token.CONST {
					kind = "const"
				}
			case *ssa.Extract:
				if lk, ok := x.Tuple.(*ssa.Lookup); ok && lk.CommaOk && x.Index == 1 {
					if w.BackSlice(lk.X, sliceOpt{}).Values != nil {
						if fv := freeVarName(lk.X); fv == "linkStrings" {
							kind = "ldflags-X"
						}
					}
				}
			}
		}
		if kind == "" {
			c.Bad(rule, "pre-callback skip", w.Pos(r.Pos()), "the literal obfuscator skips a subtree for a reason other than //go:nosplit, const, -ldflags=-X or a constant expression of a non-string kind: literals below it stay in clear")
			continue
		}
		found[kind] = true
		c.OK(rule, "skip "+kind, w.Pos(r.Pos()), "documented exception")
	}
	for _, k := range []string{"nosplit", "const", "ldflags-X", "constant-expression"} {
		if !found[k] {
			c.Bad(rule, "skip "+k, w.Pos(pre.Pos()), "the "+k+" exception is gone: such code no longer compiles, links or keeps its value once its literals are rewritten"+
				map[bool]string{true: " (a typed string constant inside an array length such as [len(prefix)]byte is replaced by a call: \"array length ... must be constant\")"}[k == "constant-expression"])
		}
	}
	// the -X set is computed whenever -literals is on, before any file is transformed
	tc := w.Fn("(*transformer).transformCompile")
	okX := false
	if tc != nil {
		for _, cs := range w.CallsTo("mvdan.cc/garble.computeLinkerVariableStrings") {
			if cs.Fn != tc {
				continue
			}
			facts := edgeFacts(cs.Instr.Block())
			onlyLiterals := len(facts) > 0
			for _, f := range facts {
				nf := normFact(f)
				ld, ok := nf.V.(*ssa.UnOp)
				if ok {
					if g, ok := ld.X.(*ssa.Global); ok && g.Name() == "flagLiterals" && nf.Outcome {
						continue
					}
				}
				// error checks of earlier steps are fine
				if _, _, isNil := nilTest(nf.V); isNil {
					continue
				}
				onlyLiterals = false
			}
			before := true
			for _, use := range w.CallsToFn(w.Fn("(*transformer).transformGoFile")) {
				if use.Fn == tc && !cs.Instr.Block().Dominates(use.Instr.Block()) {
					// the call is in an if; its block need not dominate, but it must precede: the join after the if dominates the loop
					if !reachableAvoiding(cs.Instr.Block(), nil)[use.Instr.Block()] {
						before = false
					}
				}
			}
			okX = onlyLiterals && before
		}
	}
	c.Check(okX, rule, "transformCompile computes the -X variable set under -literals", "", "computeLinkerVariableStrings runs exactly when flagLiterals is set, before the files are transformed",
		"the set of -ldflags=-X variables is not (only) computed under -literals before transforming files: their initialisers would be obfuscated and -X silently lose effect")
}

func freeVarName(v ssa.Value) string {
	if ld, ok := v.(*ssa.UnOp); ok {
		if fv, ok := ld.X.(*ssa.FreeVar); ok {
			return fv.Name()
		}
	}
	if fv, ok := v.(*ssa.FreeVar); ok {
		return fv.Name()
	}
	return ""
}

var _ = strings.Join

// R05.7. A []byte composite literal evaluates to a slice with cap == len, so
// "b := append(a, 11); c := append(a, 12)" gives two different backing arrays. The
// obfuscators build their result with make(..., n+1) and append, which can leave spare
// capacity; unless the emitted function clips the result (a three-index slice), the two
// appends share memory and b[n] == 12.
func checkSliceClipped(c *Ctx) {
	w := c.W
	c.Rule("R05.7", "an obfuscated []byte literal is clipped to cap == len before it is returned", 1)
	fn := w.Fn("literals.obfuscateByteSlice")
	if fn == nil {
		c.Undecided("R05.7", "obfuscateByteSlice", "", "function not found")
		return
	}
	var clip ssa.Instruction
	for _, b := range fn.Blocks {
		for _, in := range b.Instrs {
			st, ok := in.(*ssa.Store)
			if !ok {
				continue
			}
			fa, ok := st.Addr.(*ssa.FieldAddr)
			if !ok || namedOf(fa.X.Type()) != "SliceExpr" || fieldName(fa.X.Type(), fa.Field) != "Slice3" {
				continue
			}
			if v, ok := constBool(st.Val); ok && v {
				clip = st
			}
		}
	}
	ok := clip != nil
	if ok {
		for _, r := range returnsOf(fn) {
			if !dominatesInstr(clip, r) {
				ok = false
			}
		}
	}
	c.Check(ok, "R05.7", "obfuscateByteSlice clips its result", w.Pos(fn.Pos()), "data = data[:n:n] is emitted on every path before the return",
		"the emitted function returns the obfuscators' slice as is: it can have spare capacity, so two appends to the same literal write to the same memory (b := append(a, 11); c := append(a, 12); b[len(a)] == 12)")
}
