package main

import (
	"fmt"
	"strings"

	"golang.org/x/tools/go/ssa"
)

const lockedMutexLock = "(*github.com/rogpeppe/go-internal/lockedfile.Mutex).Lock"

func init() {
	register(&propCheck{
		id: "C17",
		explain: "Decides the structural clauses behind 'concurrent garble processes never interfere': " +
			"(R17.1) lock typestate of the patched linker: in PatchLinker the file lock is taken before the stamp is read, the sources are patched, the linker is built and the stamp is written; on every error return the lock is released by the flag-guarded defer and on every success return it is handed to the caller, who defers the release after having run the linker; " +
			"(R17.2) every file garble creates under a directory that other garble processes can see is created exclusively (O_CREATE|O_EXCL, CreateTemp, MkdirTemp), or is written under the linker lock, or goes through the content-addressed cache API; the reviewed in-place rewrite is the only exception; " +
			"(R17.3) garble has no goroutines, so its unsynchronised scratch globals cannot race, and the per-process cache handle is a sync.OnceValues; " +
			"(R17.4) the patched linker, which all garble processes share and whose stamp does not name a target, is built with GOOS/GOARCH/GOFLAGS/GOEXPERIMENT/GOENV overridden after the inherited environment; " +
			"(R18.3, shared with C18) the directory a top-level command shares with its toolexec children is a fresh os.MkdirTemp, so two invocations never meet in it. " +
			"Does not decide any actual interleaving, nor the atomicity of cmd/go, lockedfile or the cache library.",
		perConfig: checkC17,
	})
}

// linkerLock finds the Lock call in PatchLinker.
func linkerLock(w *World) (*ssa.Function, *ssa.Call) {
	pl := w.Fn("linker.PatchLinker")
	if pl == nil {
		return nil, nil
	}
	for _, cs := range w.CallsTo(lockedMutexLock) {
		if cs.Fn == pl {
			if call, ok := cs.Instr.(*ssa.Call); ok {
				return pl, call
			}
		}
	}
	return pl, nil
}

// underLinkerLock: does instruction `at` only ever execute while PatchLinker holds the lock?
func underLinkerLock(w *World, at ssa.Instruction, pl *ssa.Function, lock *ssa.Call, depth int) bool {
	fn := at.Parent()
	for fn.Parent() != nil {
		// closures: where they are created/called
		return false
	}
	if fn == pl {
		return dominatesInstr(lock, at)
	}
	if depth > 3 {
		return false
	}
	sites := w.CallsToFn(fn)
	if len(sites) == 0 {
		return false
	}
	for _, cs := range sites {
		if !underLinkerLock(w, cs.Instr, pl, lock, depth+1) {
			return false
		}
	}
	return true
}

func checkC17(c *Ctx) {
	w := c.W
	checkLockTypestate(c, "R17.1")
	ruleFreshSharedDir(c)
	ruleLinkerBuiltForHost(c)

	// R17.2 ---------------------------------------------------------------
	c.Rule("R17.2", "files visible to other garble processes are created exclusively, under the linker lock, or through the cache API", 20)
	pl, lock := linkerLock(w)
	seen := map[string]int{}
	for _, e := range fsEffects(w) {
		if e.Kind == "exec" {
			continue
		}
		k := e.key(w)
		seen[k]++
		key := fmt.Sprintf("%s #%d", k, seen[k])
		pos := w.Pos(e.Site.Instr.Pos())
		roots := strings.Join(e.Roots, "+")
		locked := pl != nil && lock != nil && underLinkerLock(w, e.Site.Instr, pl, lock, 0)
		switch {
		case e.Kind == "cacheput" || e.Kind == "cachetrim" || e.Kind == "cacheopen":
			c.OK("R17.2", key, pos, "content-addressed cache API (atomic puts, entries visible through their index file)")
		case e.Kind == "mkdir" || e.Kind == "lock":
			c.OK("R17.2", key, pos, "creating a directory or opening the lock file is idempotent")
		case e.Kind == "mktemp":
			c.OK("R17.2", key, pos, "unique name chosen by the OS ("+e.Callee+")")
		case e.Kind == "remove":
			c.OK("R17.2", key, pos, "removal of this command's own directory ("+roots+"); ownership is decided by C19")
		case e.Excl:
			c.OK("R17.2", key, pos, "O_CREATE|O_EXCL: a second writer fails instead of overwriting")
		case locked:
			c.OK("R17.2", key, pos, "only executed while PatchLinker holds the file lock")
		case roots == rootProfile || roots == rootDebugDir:
			c.OK("R17.2", key, pos, "user-requested side output ("+roots+"), not shared state of the build")
		case k == "(*transformer).transformAsm os.WriteFile" && roots == rootSharedTemp:
			c.OK("R17.2", key, pos, "reviewed: the second assembler pass rewrites the file this package's own first pass created; the go command runs both passes of one package sequentially")
		default:
			c.Bad("R17.2", key, pos, fmt.Sprintf("%s into %s without O_EXCL, outside the linker lock and not through the cache API: two garble processes can interleave on this file", e.Callee, roots))
		}
	}
	// the spawned build of the linker writes into the cache dir: must be under the lock
	for _, cs := range w.CallsTo("os/exec.Command") {
		if w.FuncName(cs.Fn) != "linker.buildLinker" && w.FuncName(cs.Fn) != "linker.applyPatches" {
			continue
		}
		ok := pl != nil && lock != nil && underLinkerLock(w, cs.Instr, pl, lock, 0)
		c.Check(ok, "R17.2", w.FuncName(cs.Fn)+" spawned command", w.Pos(cs.Instr.Pos()), "runs while the linker lock is held",
			"the command that writes the patched linker (or its sources) can run without the linker lock")
	}

	// R17.3 ---------------------------------------------------------------
	c.Rule("R17.3", "single goroutine; memoised per-process cache handle", 2)
	all := map[*ssa.Function]bool{}
	for _, f := range w.ModuleFuncs() {
		all[f] = true
	}
	n3 := 0
	for _, s := range detSites(w, all) {
		if s.Kind == "D3" {
			n3++
			c.Bad("R17.3", s.key(w), w.Pos(s.Instr.Pos()), "concurrency inside one garble process: hasher, sumBuffer, b64NameBuffer, printBuf1/2 and the lazily decoded package list are unsynchronised")
		}
	}
	if ok, why := positiveControlD3(); !ok {
		c.Undecided("R17.3", "positive control", "", why)
	} else if n3 == 0 {
		c.OK("R17.3", "no go statement or select in garble", "", fmt.Sprintf("%d functions scanned; control program flagged", len(all)))
	}
	okOnce := false
	w.forEachInstr(func(fn *ssa.Function, in ssa.Instruction) {
		if st, ok := in.(*ssa.Store); ok {
			if g, ok := st.Addr.(*ssa.Global); ok && g.Name() == "openCache" {
				if w.BackSlice(st.Val, sliceOpt{}).HasCall("sync.OnceValues") {
					okOnce = true
				}
			}
		}
	})
	c.Check(okOnce, "R17.3", "openCache is a sync.OnceValues", "", "the cache directory is opened once per process", "openCache is no longer memoised with sync.OnceValues")
}

// checkLockTypestate: R17.1 (shared with C18)
func checkLockTypestate(c *Ctx, rule string) {
	w := c.W
	c.Rule(rule, "linker lock: taken before any shared-state access, released on error returns, handed out on success, released by the caller after the link", 9)
	pl, lock := linkerLock(w)
	if pl == nil || lock == nil {
		c.Bad(rule, "linker.PatchLinker lock", "", "PatchLinker no longer takes the lockedfile mutex")
		return
	}
	// (a) Lock dominates the shared-state operations
	for _, n := range []string{"checkVersion", "applyPatches", "buildLinker", "writeVersion"} {
		sites := w.CallsTo("mvdan.cc/garble/internal/linker." + n)
		found := false
		for _, cs := range sites {
			if cs.Fn != pl {
				continue
			}
			found = true
			c.Check(dominatesInstr(lock, cs.Instr), rule, "Lock before "+n, w.Pos(cs.Instr.Pos()), "dominated by Mutex.Lock", n+" can run without the linker lock being held")
		}
		if !found {
			c.Bad(rule, "Lock before "+n, w.Pos(pl.Pos()), n+" is no longer called from PatchLinker")
		}
	}
	// the lock path is next to the linker binary
	ps := w.BackSlice(lock.Call.Args[0], sliceOpt{})
	c.Check(ps.HasCall("mvdan.cc/garble/internal/linker.cachePath") && ps.Consts[`".lock"`], rule, "lock file location", w.Pos(lock.Pos()), "cachePath(cacheDir)+\".lock\"", "the mutex no longer guards the cached linker's path")

	// (b) the deferred release: closure that calls unlock unless the success flag is set
	var unlockCell, flagCell *ssa.Alloc
	var deferred *ssa.Function
	for _, r := range *lock.Referrers() {
		if ex, ok := r.(*ssa.Extract); ok && ex.Index == 0 {
			for _, q := range *ex.Referrers() {
				if st, ok := q.(*ssa.Store); ok {
					unlockCell, _ = st.Addr.(*ssa.Alloc)
				}
			}
		}
	}
	for _, b := range pl.Blocks {
		for _, in := range b.Instrs {
			d, ok := in.(*ssa.Defer)
			if !ok {
				continue
			}
			mc, ok := d.Call.Value.(*ssa.MakeClosure)
			if !ok {
				continue
			}
			fn := mc.Fn.(*ssa.Function)
			// does the closure call the unlock cell under a false flag?
			for i, bnd := range mc.Bindings {
				if al, ok := bnd.(*ssa.Alloc); ok && al != unlockCell && i < len(fn.FreeVars) {
					if isBoolCell(al) {
						flagCell = al
					}
				}
			}
			if flagCell != nil {
				deferred = fn
				c.Check(dominatesInstr(lock, d), rule, "deferred release registered after Lock", w.Pos(d.Pos()), "defer follows Lock", "the deferred release is registered before the lock is taken")
			}
		}
	}
	if deferred == nil || unlockCell == nil {
		c.Bad(rule, "deferred release", w.Pos(pl.Pos()), "PatchLinker no longer defers a release of the lock guarded by a success flag")
		return
	}
	okBody := false
	for _, b := range deferred.Blocks {
		for _, in := range b.Instrs {
			call, ok := in.(*ssa.Call)
			if !ok {
				continue
			}
			if ld, ok := call.Call.Value.(*ssa.UnOp); ok {
				if fv, ok := ld.X.(*ssa.FreeVar); ok && strings.Contains(fv.Name(), "unlock") {
					for _, f := range edgeFacts(b) {
						nf := normFact(f)
						if l2, ok := nf.V.(*ssa.UnOp); ok && !nf.Outcome {
							if fv2, ok := l2.X.(*ssa.FreeVar); ok && fv2.Type().String() == "*bool" {
								okBody = true
							}
						}
					}
				}
			}
		}
	}
	c.Check(okBody, rule, "deferred release body", w.Pos(deferred.Pos()), "calls unlock exactly when the success flag is false", "the deferred function no longer releases the lock when PatchLinker fails")

	// (b2) nobody but the deferred function calls unlock inside PatchLinker
	early := ""
	for _, r := range *unlockCell.Referrers() {
		ld, ok := r.(*ssa.UnOp)
		if !ok || ld.Referrers() == nil {
			continue
		}
		for _, q := range *ld.Referrers() {
			if ci, ok := q.(ssa.CallInstruction); ok && ci.Common().Value == ssa.Value(ld) {
				early = w.Pos(q.Pos())
			}
		}
	}
	c.Check(early == "", rule, "no early unlock in PatchLinker", early, "the lock is only released by the deferred function or by the caller",
		"PatchLinker releases the lock itself at "+early+" while the stamp, sources or binary may still be written or the linker still has to run")

	// (c) returns after the lock
	storesTrue := map[*ssa.BasicBlock]bool{}
	for _, r := range *flagCell.Referrers() {
		if st, ok := r.(*ssa.Store); ok {
			if b, ok := constBool(st.Val); ok && b {
				storesTrue[st.Block()] = true
			}
		}
	}
	nErr, nOK := 0, 0
	for _, ret := range returnsOf(pl) {
		if !dominatesInstr(lock, ret) {
			continue
		}
		res := retResults(ret)
		if len(res) != 3 {
			continue
		}
		pos := w.Pos(ret.Pos())
		// is a store of true on some path to this return? on all paths?
		flagMay := false
		for sb := range storesTrue {
			if sb == ret.Block() || reachableAvoiding(sb, nil)[ret.Block()] {
				flagMay = true
			}
		}
		flagMust := false
		for sb := range storesTrue {
			if sb == ret.Block() || sb.Dominates(ret.Block()) {
				flagMust = true
			}
		}
		if isNilConst(res[2]) {
			nOK++
			handed := false
			if ld, ok := res[1].(*ssa.UnOp); ok && ld.X == ssa.Value(unlockCell) {
				handed = true
			}
			c.Check(flagMust && handed, rule, fmt.Sprintf("success return #%d keeps the lock for the caller", nOK), pos, "success flag set and unlock returned",
				fmt.Sprintf("on this success return the lock is not handed to the caller (flag set: %v, unlock returned: %v): the linker would run unlocked, or the lock would never be released", flagMust, handed))
		} else {
			nErr++
			c.Check(!flagMay, rule, fmt.Sprintf("error return #%d releases the lock", nErr), pos, "success flag cannot be set: the deferred function unlocks",
				"an error return is reachable with the success flag set: the lock is neither released nor handed out")
		}
	}
	// (d) the caller
	me := w.Fn("mainErr")
	okCaller := false
	if me != nil {
		for _, cs := range w.CallsToFn(pl) {
			if cs.Fn != me {
				continue
			}
			var unlockV ssa.Value
			for _, r := range *cs.Instr.(*ssa.Call).Referrers() {
				if ex, ok := r.(*ssa.Extract); ok && ex.Index == 1 {
					unlockV = ex
				}
			}
			var dfr ssa.Instruction
			for _, b := range me.Blocks {
				for _, in := range b.Instrs {
					if d, ok := in.(*ssa.Defer); ok && d.Call.Value == unlockV {
						dfr = d
					}
				}
			}
			if dfr == nil {
				continue
			}
			// the tool is run in this function after the defer was registered, so the release (at return) follows the link
			for _, run := range w.CallsTo("(*os/exec.Cmd).Run") {
				// on the link path the defer (registered right after PatchLinker succeeded) precedes the run
				if run.Fn == me && dominatesInstr(cs.Instr, dfr) && run.Instr.Block() != dfr.Block() && reachableAvoiding(dfr.Block(), nil)[run.Instr.Block()] {
					okCaller = true
				}
			}
		}
	}
	c.Check(okCaller, rule, "mainErr releases the lock after running the linker", "", "defer unlock() is registered before the linker is executed and runs at return",
		"mainErr no longer holds the linker lock while the patched linker runs (or never releases it)")
}

func isBoolCell(al *ssa.Alloc) bool {
	return al.Type().String() == "*bool"
}

// ruleLinkerBuiltForHost is R17.4. The cached linker is shared by every garble process and
// its stamp records Go version, patches and size, not the target. It must therefore always
// be built for the host, whatever GOOS/GOARCH/GOFLAGS the process that wins the lock inherited
// from a cross build. os/exec keeps the LAST value of a duplicated key, so the overrides
// must be appended after the inherited environment.
func ruleLinkerBuiltForHost(c *Ctx) {
	w := c.W
	c.Rule("R17.4", "the shared linker is built for the host: target-related variables are overridden after the inherited environment", 1)
	bl := w.Fn("linker.buildLinker")
	if bl == nil {
		c.Undecided("R17.4", "buildLinker environment", "", "buildLinker not found")
		return
	}
	found, bad := false, ""
	for _, b := range bl.Blocks {
		for _, in := range b.Instrs {
			st, ok := in.(*ssa.Store)
			if !ok {
				continue
			}
			fa, ok := st.Addr.(*ssa.FieldAddr)
			if !ok || namedOf(fa.X.Type()) != "Cmd" || fieldName(fa.X.Type(), fa.Field) != "Env" {
				continue
			}
			found = true
			app, ok := st.Val.(*ssa.Call)
			if !ok || calleeName(app) != "builtin.append" || len(app.Call.Args) != 2 {
				bad = "cmd.Env is not built as append(<inherited environment>, overrides...)"
				continue
			}
			isEnviron := func(v ssa.Value) bool {
				call, ok := v.(*ssa.Call)
				return ok && (calleeName(call) == "(*os/exec.Cmd).Environ" || calleeName(call) == "os.Environ")
			}
			inheritedFirst := isEnviron(app.Call.Args[0])
			inheritedLast := isEnviron(app.Call.Args[1])
			overrides := map[string]bool{}
			for _, e := range variadicElems(app.Call.Args[1]) {
				if k, ok := constString(e); ok {
					overrides[k] = true
				}
			}
			var missing []string
			for _, k := range []string{"GOOS=", "GOARCH=", "GOFLAGS=", "GOEXPERIMENT=", "GOENV=off"} {
				if !overrides[k] {
					missing = append(missing, k)
				}
			}
			switch {
			case inheritedLast || !inheritedFirst:
				bad = "the inherited environment comes after the overrides (or is not the base of the append): os/exec keeps the last value of a duplicate key, so a process started by a cross build (GOARCH=arm64) builds the shared linker for that target, stamps it valid, and every build on that cache fails with 'exec format error'"
			case len(missing) > 0:
				bad = "the linker build no longer overrides " + strings.Join(missing, ", ")
			}
		}
	}
	if !found {
		c.Undecided("R17.4", "buildLinker environment", w.Pos(bl.Pos()), "buildLinker does not set cmd.Env")
		return
	}
	c.Check(bad == "", "R17.4", "buildLinker environment", w.Pos(bl.Pos()), "append(cmd.Environ(), GOENV=off, GOOS=, GOARCH=, GOEXPERIMENT=, GOFLAGS=)", bad)
}
