package main

import (
	"fmt"
	"go/types"
	"strings"

	"golang.org/x/tools/go/ssa"
)

func init() {
	register(&propCheck{
		id: "C18",
		explain: "Decides the ordering clauses behind 'an interrupted build leaves nothing that breaks the next one': " +
			"(R18.1) the linker's version stamp is written only after buildLinker returned nil, and the cached linker is reused only under stamp-and-file guards that bind the file's content; " +
			"(R18.2) invalidate before rewrite: on every path to buildLinker the stamp was found missing or mismatching, or is removed first, so a kill while the binary is being written can never leave a partial binary next to a valid stamp; " +
			"(R18.5) checkVersion treats any stamp content as 'does not match', never as an error; " +
			"(R18.3) the directory shared between garble processes is a fresh MkdirTemp of each top-level command (the global is only ever assigned from it or inherited by toolexec children), and nothing garble creates under os.TempDir() has a fixed name; " +
			"(R18.4) everything written below the cache directory goes through Cache.PutBytes (entries become visible through their index file) or is the linker, written under its lock. " +
			"Does not decide the effect of a kill at any particular instant, nor the crash behaviour of cmd/go and the cache library.",
		perConfig: checkC18,
	})
}

func checkC18(c *Ctx) {
	w := c.W
	c.Rule("R18.1", "stamp written only after a successful linker build", 1)
	pl := w.Fn("linker.PatchLinker")
	if pl == nil {
		c.Undecided("R18.1", "linker.PatchLinker", "", "anchor function not found")
		return
	}
	var build, stamp []CallSite
	for _, cs := range w.CallsTo("mvdan.cc/garble/internal/linker.buildLinker") {
		if cs.Fn == pl {
			build = append(build, cs)
		}
	}
	for _, cs := range w.CallsTo("mvdan.cc/garble/internal/linker.writeVersion") {
		if cs.Fn == pl {
			stamp = append(stamp, cs)
		}
	}
	if len(build) != 1 || len(stamp) != 1 {
		c.Bad("R18.1", "PatchLinker build and stamp", w.Pos(pl.Pos()), fmt.Sprintf("expected one buildLinker and one writeVersion call, found %d and %d", len(build), len(stamp)))
		return
	}
	okNil := false
	for _, f := range edgeFacts(stamp[0].Instr.Block()) {
		if v, nonNil, ok := nilTest(f.V); ok && f.Outcome != nonNil && v == ssa.Value(build[0].Instr.(*ssa.Call)) {
			okNil = true
		}
	}
	c.Check(okNil, "R18.1", "writeVersion after buildLinker == nil", w.Pos(stamp[0].Instr.Pos()), "on the nil edge of buildLinker's error",
		"the stamp can be written although building the linker failed or was skipped")
	// nobody else writes the stamp
	for _, cs := range w.CallsTo("mvdan.cc/garble/internal/linker.writeVersion") {
		if cs.Fn != pl {
			c.Bad("R18.1", "writeVersion called from "+w.FuncName(cs.Fn), w.Pos(cs.Instr.Pos()), "the stamp is written outside PatchLinker's protocol")
		}
	}
	checkLinkerReuse(c, "R18.1b", "R18.1c")

	// R18.2 ---------------------------------------------------------------
	c.Rule("R18.2", "the stamp is known absent/mismatching or removed before the linker binary is rewritten", 1)
	// on every path from the stamp check to buildLinker: (checkVersion == false) or os.Remove(stamp path)
	var chk *ssa.Call
	for _, cs := range w.CallsTo("mvdan.cc/garble/internal/linker.checkVersion") {
		if cs.Fn == pl {
			chk, _ = cs.Instr.(*ssa.Call)
		}
	}
	if chk == nil {
		c.Bad("R18.2", "PatchLinker invalidates before rebuilding", w.Pos(pl.Pos()), "checkVersion is no longer called")
	} else {
		var verOK ssa.Value
		for _, r := range *chk.Referrers() {
			if ex, ok := r.(*ssa.Extract); ok && ex.Index == 0 {
				verOK = ex
			}
		}
		removeBlocks := map[*ssa.BasicBlock]bool{}
		for _, cs := range w.CallsTo("os.Remove", "os.RemoveAll", "os.Truncate") {
			if cs.Fn == pl && w.BackSlice(cs.Arg(0), sliceOpt{Depth: 2, IntoCallees: true}).Consts[`".version"`] {
				removeBlocks[cs.Instr.Block()] = true
			}
		}
		// also accept a helper that removes the stamp
		for _, b := range pl.Blocks {
			for _, in := range b.Instrs {
				if call, ok := in.(*ssa.Call); ok {
					if callee := call.Call.StaticCallee(); callee != nil && w.isModuleFn(callee) {
						for _, cb := range callee.Blocks {
							for _, ci := range cb.Instrs {
								if x, ok := ci.(ssa.CallInstruction); ok && (calleeName(x) == "os.Remove" || calleeName(x) == "os.RemoveAll") {
									if w.BackSlice(x.Common().Args[0], sliceOpt{}).Consts[`".version"`] && dominatesAllReturns(ci, callee) {
										removeBlocks[b] = true
									}
								}
							}
						}
					}
				}
			}
		}
		// a removal inside a loop over a non-empty literal list ("for _, p := range []string{stamp, binary}")
		// counts at the loop header, provided every iteration removes and the only other exits fail
		for rb := range removeBlocks {
			h := loopHeaderOf(rb)
			if h == nil || !constTripLoop(h) {
				continue
			}
			body := loopBlocks(h)
			ok := true
			for _, p := range h.Preds {
				if h.Dominates(p) && !rb.Dominates(p) {
					ok = false // an iteration can skip the removal
				}
			}
			for b := range body {
				for _, sc := range b.Succs {
					if !body[sc] && b != h && reachableAvoiding(sc, nil)[build[0].Instr.Block()] {
						ok = false // the loop can be left early and still reach the rebuild
					}
				}
			}
			if ok {
				removeBlocks[h] = true
			}
		}
		paths, ok := enumPaths(chk.Block(), build[0].Instr.Block(), 500)
		if !ok {
			c.Undecided("R18.2", "PatchLinker invalidates before rebuilding", w.Pos(build[0].Instr.Pos()), "too many paths")
		} else {
			bad := ""
			for _, p := range paths {
				safe := false
				for _, e := range p {
					cond, outcome := e.Cond()
					if cond != nil && cond == verOK && !outcome {
						safe = true // the stamp does not match: it cannot vouch for a partial binary
					}
					if removeBlocks[e.From] {
						safe = true
					}
				}
				if removeBlocks[build[0].Instr.Block()] {
					for _, in := range build[0].Instr.Block().Instrs {
						if ci, ok := in.(ssa.CallInstruction); ok && strings.HasPrefix(calleeName(ci), "os.Remove") && dominatesInstr(in, build[0].Instr) {
							safe = true
						}
					}
				}
				if !safe {
					bad = w.edgesString(p)
				}
			}
			if bad != "" {
				c.BadPath("R18.2", "PatchLinker invalidates before rebuilding", w.Pos(build[0].Instr.Pos()),
					"buildLinker can overwrite the cached linker while a matching stamp stays in place: a kill during the write leaves a partial binary that the next build trusts", bad)
			} else {
				c.OK("R18.2", "PatchLinker invalidates before rebuilding", w.Pos(build[0].Instr.Pos()), fmt.Sprintf("all %d paths to buildLinker have a mismatching stamp or remove it first", len(paths)))
			}
		}
	}

	ruleFreshSharedDir(c)
	ruleStampContentNeverAnError(c)

	// R18.4 ---------------------------------------------------------------
	c.Rule("R18.4", "writes below the cache directory are Cache.PutBytes, or the linker under its lock", 5)
	lpl, lock := linkerLock(w)
	seen := map[string]int{}
	for _, e := range fsEffects(w) {
		isCache := false
		for _, r := range e.Roots {
			if r == rootCache {
				isCache = true
			}
		}
		if !isCache {
			continue
		}
		k := e.key(w)
		seen[k]++
		key := fmt.Sprintf("%s #%d", k, seen[k])
		pos := w.Pos(e.Site.Instr.Pos())
		switch e.Kind {
		case "cacheput", "cachetrim", "cacheopen", "mkdir", "lock":
			c.OK("R18.4", key, pos, e.Kind)
		default:
			locked := lpl != nil && lock != nil && underLinkerLock(w, e.Site.Instr, lpl, lock, 0)
			c.Check(locked, "R18.4", key, pos, "linker file written under the linker lock, covered by the stamp protocol",
				e.Callee+" writes below the cache directory directly: a kill leaves a partial file that later builds read")
		}
	}
}

func dominatesAllReturns(in ssa.Instruction, fn *ssa.Function) bool {
	for _, r := range returnsOf(fn) {
		if !dominatesInstr(in, r) {
			return false
		}
	}
	return true
}

// constTripLoop: a range loop over a literal array/slice with at least one element.
func constTripLoop(header *ssa.BasicBlock) bool {
	iff := ifOf(header)
	if iff == nil {
		return false
	}
	cmp, ok := iff.Cond.(*ssa.BinOp)
	if !ok {
		return false
	}
	if n, ok := constInt(cmp.Y); ok {
		return n >= 1
	}
	if call, ok := cmp.Y.(*ssa.Call); ok && calleeName(call) == "builtin.len" {
		if sl, ok := call.Call.Args[0].(*ssa.Slice); ok {
			if al, ok := sl.X.(*ssa.Alloc); ok {
				if arr, ok := al.Type().Underlying().(*types.Pointer).Elem().Underlying().(*types.Array); ok {
					return arr.Len() >= 1
				}
			}
		}
	}
	return false
}

// ruleFreshSharedDir is R18.3. Shared by C18 (nothing of an interrupted run is found by the
// next one) and C17 (two concurrent invocations never meet in the same directory).
func ruleFreshSharedDir(c *Ctx) {
	w := c.W
	c.Rule("R18.3", "the shared directory is a fresh MkdirTemp per command; nothing under os.TempDir() has a fixed name", 3)
	nStores := 0
	w.forEachInstr(func(fn *ssa.Function, in ssa.Instruction) {
		st, ok := in.(*ssa.Store)
		if !ok {
			return
		}
		g, ok := st.Addr.(*ssa.Global)
		if !ok || g.Name() != "sharedTempDir" {
			return
		}
		nStores++
		sl := w.BackSlice(st.Val, sliceOpt{Depth: 2, IntoCallees: true})
		name := w.FuncName(fn)
		switch {
		case strings.HasPrefix(name, "init"):
			key, _ := "", false
			for _, cv := range sl.Calls["os.Getenv"] {
				key, _ = constString(cv.(*ssa.Call).Call.Args[0])
			}
			c.Check(key == "GARBLE_SHARED", "R18.3", "sharedTempDir initialiser", w.Pos(st.Pos()), "inherited from the top-level garble process through GARBLE_SHARED", "sharedTempDir is initialised from something other than GARBLE_SHARED")
		default:
			c.Check(sl.HasCall("os.MkdirTemp") && sl.HasCall("mvdan.cc/garble.saveSharedCache"), "R18.3", "sharedTempDir assigned in "+name, w.Pos(st.Pos()),
				"a directory created by os.MkdirTemp for this command", "sharedTempDir is set to something other than a fresh os.MkdirTemp directory: leftovers of an interrupted run could be read")
		}
	})
	if nStores == 0 {
		c.Bad("R18.3", "sharedTempDir", "", "no assignment of sharedTempDir found")
	}
	for _, e := range fsEffects(w) {
		for _, r := range e.Roots {
			if r == rootDefaultTmp {
				c.Check(e.Kind == "mktemp", "R18.3", e.key(w)+" under os.TempDir()", w.Pos(e.Site.Instr.Pos()), "unique name", "a fixed name under os.TempDir() survives an interrupted run and is found by the next one")
			}
		}
	}

}

// ruleStampContentNeverAnError is R18.5. A kill can leave the stamp file in any state
// (os.WriteFile truncates before it writes: an empty stamp beside a complete linker). Whatever
// the stamp contains, checkVersion must answer "does not match" so that the linker is rebuilt;
// an error made up from the *content* is returned before the code that removes stamp and
// binary, and every later build on that cache fails until the file is deleted by hand.
func ruleStampContentNeverAnError(c *Ctx) {
	w := c.W
	c.Rule("R18.5", "checkVersion fails only on I/O errors: no stamp content is an error", 1)
	cv := w.Fn("linker.checkVersion")
	if cv == nil {
		c.Undecided("R18.5", "checkVersion errors", "", "checkVersion not found")
		return
	}
	bad, n := "", 0
	for _, r := range returnsOf(cv) {
		res := retResults(r)
		if len(res) != 2 || isNilConst(res[1]) {
			continue
		}
		n++
		if how := freshError(w, res[1]); how != "" {
			bad = "checkVersion returns an error of its own making (" + how + ") at " + w.Pos(r.Pos()) + ": a stamp left empty or garbled by a kill makes every later build fail instead of rebuilding the linker"
		}
	}
	c.Check(bad == "", "R18.5", "checkVersion errors", w.Pos(cv.Pos()), fmt.Sprintf("%d error returns, all passing on an I/O error", n), bad)
}
