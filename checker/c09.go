package main

import (
	"fmt"
	"strings"

	"golang.org/x/tools/go/ssa"
)

func init() {
	register(&propCheck{
		id: "C09",
		explain: "Decides the coverage clauses behind 'with -literals, literal contents do not appear in the binary': " +
			"(R09.1) the literal obfuscator runs on every compiled file exactly under flagLiterals && ToObfuscate, and its result is what gets printed; " +
			"(R09.2) the string rewrite is keyed on the type information of the expression (a constant value of type string), not on a syntactic node kind, so it applies in every position; byte composites are handled both as &lit and as plain literals, for arrays and slices of byte; " +
			"(R09.3) both paths use the documented window [8, 2048]; (R09.4) the only skipped subtrees are //go:nosplit functions, const declarations and -ldflags=-X variables; " +
			"(R09.5) the -seed value is read only by the name hashes, the build hash, the seeding of the random generator and the flag's own methods — it never flows into generated syntax, a written file or a tool flag other than -toolexec. " +
			"Does not decide which expressions go/types marks constant, what the compiler re-materialises, or the bytes of any binary.",
		perConfig: checkC09,
	})
}

func checkC09(c *Ctx) {
	w := c.W
	// R09.1 ---------------------------------------------------------------
	c.Rule("R09.1", "literals.Obfuscate runs under flagLiterals && ToObfuscate and its result is printed", 2)
	tgf := w.Fn("(*transformer).transformGoFile")
	if tgf == nil {
		c.Undecided("R09.1", "transformGoFile", "", "function not found")
		return
	}
	var obfCall *ssa.Call
	for _, cs := range w.CallsTo("mvdan.cc/garble/internal/literals.Obfuscate") {
		if cs.Fn == tgf {
			obfCall, _ = cs.Instr.(*ssa.Call)
		}
	}
	if obfCall == nil {
		c.Bad("R09.1", "transformGoFile calls literals.Obfuscate", w.Pos(tgf.Pos()), "the literal obfuscator is no longer called from the per-file transformation")
	} else {
		lit, sel := false, false
		nFacts := 0
		for _, f := range edgeFacts(obfCall.Block()) {
			nf := normFact(f)
			nFacts++
			if ld, ok := nf.V.(*ssa.UnOp); ok && nf.Outcome {
				if g, ok := ld.X.(*ssa.Global); ok && g.Name() == "flagLiterals" {
					lit = true
				}
			}
			if _, ok := toObfuscateOf(nf.V); ok && nf.Outcome {
				sel = true
			}
		}
		c.Check(lit && sel && nFacts == 2, "R09.1", "literals.Obfuscate guard", w.Pos(obfCall.Pos()), "exactly flagLiterals && curPkg.ToObfuscate",
			fmt.Sprintf("the literal obfuscator runs under other conditions (flagLiterals: %v, ToObfuscate: %v, %d conditions): literals of some selected packages stay in clear, or unselected packages are rewritten", lit, sel, nFacts))
		// its result is what Apply walks and what is returned
		okFlow := false
		for _, r := range returnsOf(tgf) {
			if w.BackSlice(retResults(r)[0], sliceOpt{}).Values[obfCall] {
				okFlow = true
			}
		}
		c.Check(okFlow, "R09.1", "the obfuscated file is the one returned", w.Pos(obfCall.Pos()), "file = literals.Obfuscate(...); return Apply(file, ...)", "the result of literals.Obfuscate is dropped")
	}

	// R09.2 ---------------------------------------------------------------
	c.Rule("R09.2", "string constants are rewritten by type information in every position; byte composites in both forms", 5)
	post := w.Fn("literals.Obfuscate$2")
	if post == nil {
		c.Undecided("R09.2", "literals.Obfuscate post-callback", "", "closure not found")
	} else {
		var strCall *ssa.Call
		for _, cs := range w.CallsTo("mvdan.cc/garble/internal/literals.obfuscateString") {
			if cs.Fn == post {
				strCall, _ = cs.Instr.(*ssa.Call)
			}
		}
		if strCall == nil {
			c.Bad("R09.2", "string rewrite", w.Pos(post.Pos()), "the post-order callback no longer rewrites string constants")
		} else {
			var narrowed []string
			typeKeyed, constKeyed := false, false
			for _, f := range edgeFacts(strCall.Block()) {
				nf := normFact(f)
				if ex, ok := nf.V.(*ssa.Extract); ok {
					if ta, ok := ex.Tuple.(*ssa.TypeAssert); ok && nf.Outcome {
						if !strings.HasSuffix(ta.AssertedType.String(), "ast.Expr") {
							narrowed = append(narrowed, ta.AssertedType.String())
						}
					}
				}
				sl := w.BackSlice(nf.V, sliceOpt{})
				if sl.Fields["TypeAndValue.Type"] && sl.Globals["go/types.Typ"] && nf.Outcome {
					typeKeyed = true
				}
				if sl.Fields["TypeAndValue.Value"] && nf.Outcome {
					constKeyed = true
				}
			}
			c.Check(len(narrowed) == 0, "R09.2", "string rewrite is not restricted to a syntactic kind", w.Pos(strCall.Pos()), "applies to any ast.Expr",
				"string constants are only rewritten when the node is "+strings.Join(narrowed, ", ")+": constants in other positions (folded concatenations, conversions, named constants used as values) stay in clear")
			c.Check(typeKeyed && constKeyed, "R09.2", "string rewrite keyed on info.Types", w.Pos(strCall.Pos()), "type == types.Typ[String] && Value != nil", "the string rewrite no longer tests the expression's type and constant value")
			// the result replaces the node
			okRepl := false
			for _, cs := range w.CallsTo("(*golang.org/x/tools/go/ast/astutil.Cursor).Replace") {
				if cs.Fn == post && w.BackSlice(cs.Arg(0), sliceOpt{}).Values[strCall] {
					okRepl = true
				}
			}
			c.Check(okRepl, "R09.2", "string rewrite replaces the node", w.Pos(strCall.Pos()), "cursor.Replace(obfuscateString(...))", "the obfuscated expression is computed but not put in place of the literal")
		}
		ptr, plain := false, false
		for _, cs := range w.CallsTo("mvdan.cc/garble/internal/literals.handleCompositeLiteral") {
			if cs.Fn != post {
				continue
			}
			if b, ok := constBool(cs.Args()[1]); ok {
				if b {
					ptr = true
				} else {
					plain = true
				}
			}
		}
		c.Check(ptr && plain, "R09.2", "byte composites: &lit and plain form", w.Pos(post.Pos()), "handleCompositeLiteral(isPointer=true) and (false)",
			fmt.Sprintf("byte composite literals are only handled in one form (&lit: %v, plain: %v)", ptr, plain))
	}
	if hcl := w.Fn("literals.handleCompositeLiteral"); hcl != nil {
		have := map[string]bool{}
		for _, ts := range typeSwitches(hcl) {
			for _, cs := range ts.Cases {
				have[shortType(cs.Type)] = true
			}
		}
		c.Check(have["*types.Array"] && have["*types.Slice"], "R09.2", "byte composites: arrays and slices", w.Pos(hcl.Pos()), "case *types.Array, *types.Slice with byte elements",
			fmt.Sprintf("handleCompositeLiteral no longer covers both arrays and slices (have %v)", sortedKeys(have)))
	}

	// R09.3 / R09.4 ---------------------------------------------------------
	c.Rule("R05.5", "size window [8, 2048] used by the string path, the composite path and pickObfuscator (shared with C05)", 1)
	c.Rule("R09.3", "both literal paths test the documented window", 2)
	for _, name := range []string{"literals.Obfuscate$2", "literals.handleCompositeLiteral"} {
		fn := w.Fn(name)
		lo, hi := false, false
		if fn != nil {
			for _, b := range fn.Blocks {
				for _, in := range b.Instrs {
					if bo, ok := in.(*ssa.BinOp); ok {
						if n, ok := constInt(bo.Y); ok {
							if n == 8 && bo.Op.String() == "<" {
								lo = true
							}
							if n == 2048 && bo.Op.String() == ">" {
								hi = true
							}
						}
					}
				}
			}
		}
		c.Check(lo && hi, "R09.3", name+" window", "", "len < 8 || len > 2048 is skipped", fmt.Sprintf("%s does not test both bounds of [8, 2048] (lower: %v, upper: %v): literals inside the documented window stay in clear", name, lo, hi))
	}
	c.OK("R05.5", "window constants (see C05)", "", "checked in detail by C05 R05.5")
	checkLiteralSkips(c, "R09.4")

	// R09.5 ---------------------------------------------------------------
	c.Rule("R09.5", "the seed is read only where it is hashed, used to seed the generator, or handled as a flag", 5)
	allowed := map[string]string{
		"hashWithPackage": "chooses the salt", "hashWithStruct": "chooses the salt", "hashWithCustomSalt": "hash input", "runtimeHashWithCustomSalt": "hash input",
		"appendFlags": "build hash and the -toolexec command line handed to child processes", "(*transformer).transformCompile": "seeds the random generator",
		"(seedFlag).present": "flag method", "(seedFlag).String": "flag method", "(*seedFlag).Set": "flag method", "main": "prints a randomly chosen seed to the user", "init": "flag registration",
	}
	all := map[*ssa.Function]bool{}
	for _, f := range w.ModuleFuncs() {
		all[f] = true
	}
	globals := configGlobals(w)
	readers := map[string]string{}
	for _, r := range configReads(w, all, globals) {
		if r.Item == "flag:seed" {
			readers[w.FuncName(r.Fn)] = w.Pos(r.Instr.Pos())
		}
	}
	// methods reading the receiver's fields
	for _, fn := range w.ModuleFuncs() {
		if recv := fn.Signature.Recv(); recv != nil && namedOf(recv.Type()) == "seedFlag" {
			readers[w.FuncName(fn)] = w.Pos(fn.Pos())
		}
	}
	for _, name := range sortedKeys(readers) {
		c.Check(allowed[name] != "", "R09.5", "seed read in "+name, readers[name], allowed[name],
			name+" reads the -seed value; it is not one of the reviewed readers, so the seed may flow into generated code or a file and end up in the binary")
	}
	// the seed reaches the tool command line only as part of -toolexec
	if af := w.Fn("appendFlags"); af != nil {
		n := 0
		for _, cs := range w.CallsToFn(af) {
			n++
			name := w.FuncName(cs.Fn)
			c.Check(name == "addGarbleToHash" || name == "toolexecCmd", "R09.5", "appendFlags called from "+name, w.Pos(cs.Instr.Pos()), "hash input, or the -toolexec argument",
				"appendFlags (which writes -seed=<value>) is used in "+name+": the seed could reach a compiler or linker flag")
		}
	}
}
