package main

import (
	"fmt"
	"go/types"
	"sort"
	"strings"

	"golang.org/x/tools/go/ssa"
)

func init() {
	register(&propCheck{
		id: "C16",
		explain: "Executes the SSA of hashWithCustomSalt (and the byte helpers it calls) in an abstract interpreter, exhaustively over: all 64 symbols the base64 alphabet can put in the first cell x {name is not an identifier, exported identifier, unexported identifier} x all 256 values of the hash byte that picks the length; every later cell is a set of bytes and loops over the buffer are summarised pointwise (any cross-position access is undecided). " +
			"Decides for every case: length in [6,12] and within the buffer, the buffer is completely filled by the encoder, first byte a letter or '_', every byte in [A-Za-z0-9_], exported <=> first byte upper case. " +
			"Separately decides purity: the function and its helpers read only their parameters, the seed and their scratch globals, store only into the name buffer, and reset the hasher before writing salt, seed, name in that order; the three callers are the only ones. " +
			"Axioms: SHA-256 output bytes are arbitrary; base64 Encode writes EncodedLen(n) symbols of the encoding's alphabet. Does not decide collision freedom nor that a name is not a Go keyword.",
		perConfig: checkC16,
	})
}

const (
	b64Std = "ABCDEFGHIJKLMNOPQRSTUVWXYZabcdefghijklmnopqrstuvwxyz0123456789+/"
	b64URL = "ABCDEFGHIJKLMNOPQRSTUVWXYZabcdefghijklmnopqrstuvwxyz0123456789-_"
)

func isLetterB(b byte) bool { return 'a' <= b && b <= 'z' || 'A' <= b && b <= 'Z' }
func isDigitB(b byte) bool  { return '0' <= b && b <= '9' }

func checkC16(c *Ctx) {
	w := c.W
	c.Rule("R16.1", "for every first symbol x name class, over all length bytes: 6..12 chars, [A-Za-z_][A-Za-z0-9_]*, export preserved", 192)
	c.Rule("R16.2", "the name function is pure: reads only salt, seed, name and scratch globals; stores only into its buffer; hasher reset then salt, seed, name", 4)
	c.Rule("R16.3", "every obfuscated name is produced by this one function: its callers are exactly the three salt wrappers", 3)
	fn := w.Fn("hashWithCustomSalt")
	if fn == nil {
		c.Undecided("R16.1", "hashWithCustomSalt", "", "anchor function not found")
		return
	}
	// locate the encoder call, the buffer and the encoding
	h := &hashInterp{w: w, fn: fn}
	var enc *ssa.Global
	for _, b := range fn.Blocks {
		for _, in := range b.Instrs {
			call, ok := in.(*ssa.Call)
			if !ok || calleeName(call) != "(*encoding/base64.Encoding).Encode" {
				continue
			}
			if sl, ok := call.Call.Args[1].(*ssa.Slice); ok {
				if g, ok := sl.X.(*ssa.Global); ok {
					h.bufGlob = g
					if arr, ok := g.Type().(*types.Pointer).Elem().Underlying().(*types.Array); ok {
						h.bufLen = arr.Len()
					}
				}
			}
			if ld, ok := call.Call.Args[0].(*ssa.UnOp); ok {
				enc, _ = ld.X.(*ssa.Global)
			}
		}
	}
	if h.bufGlob == nil || h.bufLen == 0 || enc == nil {
		c.Undecided("R16.1", "hashWithCustomSalt encoder", w.Pos(fn.Pos()), "cannot find base64 Encode into a package-level array: the function no longer has the shape the interpreter models")
		return
	}
	// the alphabet, from the initialiser of the encoding global
	alphabet, why := encodingAlphabet(w, enc)
	if alphabet == "" {
		c.Undecided("R16.1", "nameBase64 alphabet", w.Pos(enc.Pos()), why)
		return
	}
	h.alphabet = []byte(alphabet)
	c.Count("alphabet symbols", len(alphabet))
	c.Notes = append(c.Notes, "name encoding: "+why)

	classes := []struct {
		name          string
		ident, export bool
	}{{"non-identifier", false, false}, {"exported", true, true}, {"unexported", true, false}}
	runs := 0
	lengths := map[int64]bool{}
	restUnion := byteSet{}
	for _, cl := range classes {
		for _, first := range h.alphabet {
			key := fmt.Sprintf("first=%q class=%s", string(first), cl.name)
			bad, undec := "", ""
			firstOut := map[byte]bool{}
			for lb := 0; lb < 256 && bad == "" && undec == ""; lb++ {
				res, err := h.run(hashScenario{First: first, LenByte: byte(lb), IsIdent: cl.ident, IsExported: cl.export})
				runs++
				if err != nil {
					undec = err.Error()
					break
				}
				lengths[res.Len] = true
				firstOut[res.Cell0] = true
				switch {
				case res.Len < 6 || res.Len > 12:
					bad = fmt.Sprintf("length %d for hash byte %d (must be 6..12)", res.Len, lb)
				case !(isLetterB(res.Cell0) || res.Cell0 == '_'):
					bad = fmt.Sprintf("first character %q is not a letter or underscore: not a Go identifier", string(res.Cell0))
				case cl.ident && cl.export && !('A' <= res.Cell0 && res.Cell0 <= 'Z'):
					bad = fmt.Sprintf("exported original name, but the hashed name starts with %q: it is no longer exported", string(res.Cell0))
				case cl.ident && !cl.export && ('A' <= res.Cell0 && res.Cell0 <= 'Z'):
					bad = fmt.Sprintf("unexported original name, but the hashed name starts with %q: it became exported", string(res.Cell0))
				}
				for x := 0; x < 256 && bad == ""; x++ {
					if res.Rest[x] {
						restUnion[x] = true
						if !(isLetterB(byte(x)) || isDigitB(byte(x)) || x == '_') {
							bad = fmt.Sprintf("a later character can be %q: not a Go identifier", string(rune(x)))
						}
					}
				}
			}
			switch {
			case undec != "":
				c.Undecided("R16.1", key, w.Pos(fn.Pos()), undec)
			case bad != "":
				c.Bad("R16.1", key, w.Pos(fn.Pos()), bad)
			default:
				var outs []string
				for b := range firstOut {
					outs = append(outs, string(b))
				}
				sort.Strings(outs)
				c.OK("R16.1", key, w.Pos(fn.Pos()), "256 length bytes; first character becomes "+strings.Join(outs, ","))
			}
		}
	}
	c.Count("interpreter runs", runs)
	c.Count("interpreter steps", h.steps)
	var ls []string
	for l := int64(0); l < 64; l++ {
		if lengths[l] {
			ls = append(ls, fmt.Sprint(l))
		}
	}
	c.Notes = append(c.Notes, "result lengths seen: "+strings.Join(ls, ",")+fmt.Sprintf("; later characters range over %d byte values; encoder input: %d hash bytes into a %d-byte buffer", restUnion.count(), h.encodeSrcLen, h.bufLen))
	c.exhaust = true

	checkHashPurity(c, fn, h.bufGlob)

	// R16.3 callers
	want := map[string]bool{"hashWithPackage": true, "hashWithStruct": true, "randomName": true}
	got := map[string]bool{}
	for _, cs := range w.CallsToFn(fn) {
		name := w.FuncName(cs.Fn)
		got[name] = true
		c.Check(want[name], "R16.3", "caller "+name, w.Pos(cs.Instr.Pos()), "one of the three salt wrappers",
			name+" calls hashWithCustomSalt directly with its own salt: names produced here escape the salting rules of hashWithPackage/hashWithStruct")
	}
	for n := range want {
		if !got[n] {
			c.Bad("R16.3", "caller "+n, "", n+" no longer derives its names through hashWithCustomSalt")
		}
	}
	for _, use := range w.FuncValueUses(fn) {
		c.Bad("R16.3", "hashWithCustomSalt used as a value", w.Pos(use.Pos()), "the name function escapes as a value; its callers can no longer be enumerated")
	}
}

// encodingAlphabet reads the alphabet of a package-level *base64.Encoding from its initialiser.
func encodingAlphabet(w *World, enc *ssa.Global) (string, string) {
	var stored ssa.Value
	n := 0
	w.forEachInstr(func(fn *ssa.Function, in ssa.Instruction) {
		if st, ok := in.(*ssa.Store); ok && st.Addr == ssa.Value(enc) {
			stored = st.Val
			n++
		}
	})
	if n != 1 {
		return "", fmt.Sprintf("%s is assigned %d times; expected exactly one initialiser", enc.Name(), n)
	}
	sl := w.BackSlice(stored, sliceOpt{})
	alpha, base := "", ""
	switch {
	case sl.Globals["encoding/base64.URLEncoding"] || sl.Globals["encoding/base64.RawURLEncoding"]:
		alpha, base = b64URL, "URL alphabet"
	case sl.Globals["encoding/base64.StdEncoding"] || sl.Globals["encoding/base64.RawStdEncoding"]:
		alpha, base = b64Std, "standard alphabet"
	default:
		for _, cv := range sl.Calls["encoding/base64.NewEncoding"] {
			if s, ok := constString(cv.(*ssa.Call).Call.Args[0]); ok && len(s) == 64 {
				alpha, base = s, "custom alphabet"
			}
		}
	}
	if alpha == "" {
		return "", "cannot determine the alphabet of " + enc.Name() + " from its initialiser"
	}
	raw := sl.Globals["encoding/base64.RawURLEncoding"] || sl.Globals["encoding/base64.RawStdEncoding"]
	if !raw {
		np := false
		for _, cv := range sl.Calls["(encoding/base64.Encoding).WithPadding"] {
			if n, ok := constInt(cv.(*ssa.Call).Call.Args[1]); ok && n == -1 {
				np = true
			}
		}
		if !np {
			return "", enc.Name() + " keeps '=' padding: the encoder may write '=' into the name"
		}
	}
	return alpha, base + ", no padding"
}

// checkHashPurity: R16.2
func checkHashPurity(c *Ctx, fn *ssa.Function, buf *ssa.Global) {
	w := c.W
	// (a) globals read/written by the function and the module helpers it calls
	allowed := map[string]string{
		"main.hasher": "scratch hasher", "main.sumBuffer": "scratch sum buffer", "main." + buf.Name(): "scratch name buffer",
		"main.nameBase64": "the encoding", "main.flagSeed": "the seed (part of the hash input)",
	}
	g := w.Graph()
	reach, _ := g.Reach(fn)
	var badGlob []string
	nGlob := 0
	for f := range reach {
		for _, b := range f.Blocks {
			for _, in := range b.Instrs {
				for _, op := range in.Operands(nil) {
					if gl, ok := (*op).(*ssa.Global); ok {
						nGlob++
						if _, ok := allowed[globalName(gl)]; !ok {
							badGlob = append(badGlob, globalName(gl)+" at "+w.Pos(in.Pos()))
						}
					}
				}
			}
		}
	}
	c.Count("global references in the name function", nGlob)
	c.Check(len(badGlob) == 0, "R16.2", "hashWithCustomSalt global accesses", w.Pos(fn.Pos()),
		"only hasher, sumBuffer, the name buffer, nameBase64 and flagSeed",
		"the name depends on or modifies state beyond salt, seed and name: "+strings.Join(dedup(badGlob), "; "))

	// (b) external calls: a fixed, reviewed set
	okCalls := map[string]bool{
		"(hash.Hash).Reset": true, "(hash.Hash).Write": true, "(hash.Hash).Sum": true, "io.WriteString": true,
		"(*encoding/base64.Encoding).Encode": true, "go/token.IsIdentifier": true, "go/token.IsExported": true,
		"builtin.len": true, "(io.Writer).Write": true,
	}
	var badCalls []string
	for f := range reach {
		for name, calls := range g.Ext[f] {
			if !okCalls[name] {
				badCalls = append(badCalls, name+" at "+w.Pos(calls[0].Pos()))
			}
		}
	}
	sort.Strings(badCalls)
	c.Check(len(badCalls) == 0, "R16.2", "hashWithCustomSalt external calls", w.Pos(fn.Pos()),
		"only hasher, encoder and go/token predicates", "calls outside the reviewed set (environment, clock, randomness, I/O would make the name impure): "+strings.Join(badCalls, "; "))

	// (c) hasher protocol: Reset dominates every Write; writes are salt, seed, name in this order; Sum after them
	var reset ssa.Instruction
	var writes []ssa.Instruction
	var sum ssa.Instruction
	for _, b := range fn.Blocks {
		for _, in := range b.Instrs {
			ci, ok := in.(ssa.CallInstruction)
			if !ok {
				continue
			}
			switch calleeName(ci) {
			case "(hash.Hash).Reset":
				reset = in
			case "(hash.Hash).Write", "(io.Writer).Write", "io.WriteString":
				writes = append(writes, in)
			case "(hash.Hash).Sum":
				sum = in
			}
		}
	}
	protoOK, why := reset != nil && sum != nil && len(writes) == 3, ""
	if !protoOK {
		why = fmt.Sprintf("expected Reset, three writes and Sum; found reset=%v writes=%d sum=%v", reset != nil, len(writes), sum != nil)
	} else {
		var order []string
		prev := reset
		for _, wr := range writes {
			if !dominatesInstr(prev, wr) {
				protoOK, why = false, "hasher calls are not in a fixed order"
			}
			prev = wr
			args := wr.(ssa.CallInstruction).Common().Args
			data := args[len(args)-1]
			sl := w.BackSlice(data, sliceOpt{})
			switch {
			case sl.Fields["seedFlag.bytes"]:
				order = append(order, "seed")
			case len(sl.Params) == 1:
				for p := range sl.Params {
					order = append(order, p.Name())
				}
			default:
				order = append(order, "?")
			}
		}
		if !dominatesInstr(prev, sum) {
			protoOK, why = false, "Sum is not after the writes"
		}
		if protoOK && strings.Join(order, ",") != fn.Params[0].Name()+",seed,"+fn.Params[1].Name() {
			protoOK, why = false, "hash input is "+strings.Join(order, ",")+", expected salt,seed,name"
		}
	}
	c.Check(protoOK, "R16.2", "hashWithCustomSalt hasher protocol", w.Pos(fn.Pos()), "Reset; Write(salt); Write(seed); WriteString(name); Sum", why)

	// (d) the result is a fresh string (conversion copies), not an alias of the scratch buffer
	fresh := true
	for _, r := range returnsOf(fn) {
		if _, ok := r.Results[0].(*ssa.Convert); !ok {
			fresh = false
		}
	}
	c.Check(fresh, "R16.2", "hashWithCustomSalt result is a copy", w.Pos(fn.Pos()), "string(b64Name) copies out of the shared buffer",
		"the result aliases the shared scratch buffer: a later call would change an earlier name")
}
