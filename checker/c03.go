package main

import (
	"fmt"
	"strings"

	"golang.org/x/tools/go/ssa"
)

func init() {
	register(&propCheck{
		id: "C03",
		explain: "Decides the determinism-effect clauses behind bit-for-bit reproducibility, over every garble function that can run while compiler, assembler or linker input is computed (call-graph region from transformCompile/transformAsm/transformLink/alterToolVersion/magicValue/entryOffKey, plus the top-level process that prepares the shared package list): " +
			"(D1) no use of a process-global or environmental source — package-level math/rand, crypto/rand, the clock (unless the value provably only reaches log.Print*), pid/host, maphash; " +
			"(D2) every iteration in unspecified order (range over a map, maps.Keys/Values/All, ssa.Program.AllPackages, reflect MapKeys) is proved harmless (keys collected and sorted before any use; iterator wrapped in slices.Sorted), or is in the reviewed table with its reason, keyed by function + ranged expression + the effects of the loop body; " +
			"(D3) no goroutines or select in garble (a positive control must be found on every run); " +
			"(R03.4) math/rand generators are created in exactly one place, transformCompile, seeded from the package's GarbleActionID or the -seed bytes, and every other math/rand use in the region is a method on a *rand.Rand value. " +
			"(R07.2, shared with C07) independence of the cache state: a package's reflection facts are the same whether its dependencies' entries are present or have to be recomputed. " +
			"Does not decide determinism of go/printer, go/ssa, msgp, the Go toolchain or the filesystem.",
		perConfig: checkC03,
	})
}

// Reviewed unordered iterations (D2). Key = function: description{effects}.
var reviewedD2 = reviewedMap([]reviewedSite{
	{"computeFieldToStruct: range param info.Types {call:recordFieldToStruct}", "fills a map; recordFieldToStruct records field->struct once and panics if a second visit disagrees, so every order yields the same map"},
	{"(*transformer).transformAsm: maps.Keys of call mvdan.cc/garble.loadGoAsmNames via slices.SortedFunc", "sorted by length only; ties are distinct keys of equal length, which cannot both match at one position of strings.Replacer, and a longer key always precedes its prefixes"},
	{"(*reflectInspector).recordReflection: maps.Keys of local ri.result.ReflectAPIs", "copies the keys not yet in checkedAPIs into a set: set inserts commute"},
	{"(*reflectInspector).checkFunction: range param ri.result.ReflectAPIs[...] {call:(*reflectInspector).recordArgReflected,mapupdate}", "each known parameter index marks the types of one argument; results are set inserts into ReflectObjectNames and reflectParams"},
	{"(*reflectInspector).ignoreReflectedTypes: range local ssaPkg.Members {call:(*reflectInspector).checkFunction,call:(*reflectInspector).ignoreReflectedTypes$1,ext:(*golang.org/x/tools/go/types/typeutil.MethodSetCache).MethodSet}", "chaotic iteration of monotone updates (result sets only grow) repeated by recordReflection until a whole pass records nothing: the least fix-point is the same for every visiting order; C08 R08.4 checks that no pruning state exists and that the progress measure counts parameter sets"},
	{"validateDirectRuntimeStripping: range global requiredDirectRuntimeStrips {}", "only decides which panic message comes first; the build fails in every order"},
	{"ctrlflow.isSupportedType: range global valueGenerators {call:ctrlflow.canConvert}", "existential test returning a constant"},
	{"ctrlflow.(*trashGenerator).cacheMethods: range param vars {append,call:ctrlflow.deref,call:ctrlflow.isSupportedSig,mapupdate}", "memoises the method list per type; each type's list is computed from the type alone, in method-set order"},
	{"ctrlflow.(*trashGenerator).Generate: range param externalVars {mapupdate}", "copies one map into another"},
	{"ctrlflow.(*trashGenerator).Generate: range new map {call:ctrlflow.(*definedVar).HasRefs,store}", "per-variable, independent updates of that variable's own identifier or statement"},
	// top-level process: shared package list
	{"(*listedPackages).MarshalMsg: range param l.entries {call:(*listedPackage).MarshalMsg,mapupdate}", "payload order in the shared blob is irrelevant: every package is found through the offset index"},
	{"(*listedPackages).Msgsize: range param l.entries {call:(*listedPackage).Msgsize}", "sums sizes"},
	{"(*listedPackages).all: range param l.index {call:(*listedPackages).get}", "decodes every entry into the same map"},
	{"debugDirNeedsRebuild: range call (*mvdan.cc/garble.listedPackages).all {call:debugArtifactsExistForPkg}", "accumulates two booleans with OR"},
})

func checkC03(c *Ctx) {
	w := c.W
	ruleDepCacheRecompute(c)
	g := w.Graph()
	var roots []*ssa.Function
	for _, n := range detRegionRoots {
		fn := w.Fn(n)
		if fn == nil {
			c.Rule("D0", "region roots resolve", 6)
			c.Undecided("D0", "region root "+n, "", "entry point not found")
			continue
		}
		roots = append(roots, fn)
	}
	// the functions registered in transformMethods must be exactly the three transform roots
	region, pred := g.Reach(roots...)
	parentRoots := []*ssa.Function{w.Fn("toolexecCmd"), w.Fn("loadSharedCache")}
	parent, ppred := g.Reach(parentRoots...)
	all := map[*ssa.Function]bool{}
	for f := range region {
		all[f] = true
	}
	for f := range parent {
		if !all[f] {
			all[f] = true
			pred[f] = ppred[f]
		}
	}
	c.Count("functions in the tool-input region", len(region))
	c.Count("functions in the top-level preparation region", len(parent))
	c.Notes = append(c.Notes, fmt.Sprintf("region: %d of %d garble functions reachable from %s; plus %d from toolexecCmd/loadSharedCache", len(region), len(w.funcs), strings.Join(detRegionRoots, ", "), len(parent)))

	c.Rule("D1", "no process-global or environmental randomness/time source where tool input is computed", 3)
	c.Rule("D2", "every unordered iteration where tool input is computed is proved or reviewed harmless", 30)
	c.Rule("D3", "no goroutines or select anywhere in garble", 1)

	sites := detSites(w, all)
	seen := map[string]int{}
	for _, s := range sites {
		if s.Kind == "D3" {
			continue
		}
		key := s.key(w)
		seen[key]++
		if seen[key] > 1 {
			key = fmt.Sprintf("%s #%d", key, seen[key])
		}
		pos := w.Pos(s.Instr.Pos())
		chain := g.Chain(pred, s.Fn)
		generated := false
		if d, _ := w.Decl(s.Fn); d != nil {
			generated = strings.HasSuffix(w.Fset.Position(d.Pos()).Filename, "_gen.go")
		}
		switch {
		case s.Proved != "":
			c.OK(s.Kind, key, pos, s.Proved)
		case s.Kind == "D2" && generated && (strings.HasSuffix(w.FuncName(s.Fn), ".MarshalMsg") || strings.HasSuffix(w.FuncName(s.Fn), ".Msgsize")):
			c.OK("D2", key, pos, "msgp-generated marshaler: the bytes only go to garble's own cache or shared file and are decoded back into a map")
		case s.Kind == "D2" && reviewedD2[baseD2Key(key)] != "":
			c.OK("D2", key, pos, "reviewed: "+reviewedD2[baseD2Key(key)])
		case s.Kind == "D1":
			c.BadPath("D1", key, pos, "a value that differs between two runs of the same build can reach compiler/linker input", chain)
		default:
			c.BadPath("D2", key, pos, "iteration in unspecified order whose body is neither provably order-independent nor reviewed: if its order reaches generated code, a seeded choice or a name, two cold builds differ", chain)
		}
	}

	// D3 over the whole module, with a positive control
	allFns := map[*ssa.Function]bool{}
	for _, f := range w.ModuleFuncs() {
		allFns[f] = true
	}
	n3 := 0
	for _, s := range detSites(w, allFns) {
		if s.Kind == "D3" {
			n3++
			c.Bad("D3", s.key(w), w.Pos(s.Instr.Pos()), "concurrency inside garble: the unsynchronised scratch globals (hasher, sumBuffer, b64NameBuffer, printBuf1/2) and the seeded generator assume a single goroutine")
		}
	}
	if ok, why := positiveControlD3(); !ok {
		c.Undecided("D3", "positive control", "", "the detector did not flag the control program: "+why)
	} else if n3 == 0 {
		c.OK("D3", "no go statement or select in garble", "", fmt.Sprintf("%d functions scanned; the control program with one go statement and one select is flagged", len(allFns)))
	}

	checkRandCreation(c, region)
}

// baseD2Key strips the " #n" duplicate suffix.
func baseD2Key(k string) string {
	if i := strings.LastIndex(k, " #"); i > 0 && !strings.Contains(k[i:], "}") {
		return k[:i]
	}
	return k
}

// R03.4
func checkRandCreation(c *Ctx, region map[*ssa.Function]bool) {
	w := c.W
	c.Rule("R03.4", "one seeded math/rand generator, created in transformCompile from GarbleActionID or -seed; all other uses are methods on it", 3)
	news := w.CallsTo("math/rand.New", "math/rand.NewSource", "math/rand/v2.New", "math/rand/v2.NewPCG", "math/rand/v2.NewChaCha8")
	for _, cs := range news {
		name := w.FuncName(cs.Fn)
		key := name + " " + calleeName(cs.Instr)
		pos := w.Pos(cs.Instr.Pos())
		if name != "(*transformer).transformCompile" {
			c.Bad("R03.4", key, pos, "a second random generator is created outside transformCompile: its seed and consumption order are not tied to the package's build inputs")
			continue
		}
		if calleeName(cs.Instr) == "math/rand.NewSource" {
			sl := w.BackSlice(cs.Arg(0), sliceOpt{})
			okSeed := sl.Fields["listedPackage.GarbleActionID"] && sl.Fields["seedFlag.bytes"]
			for n := range sl.Calls {
				if d1Source(n) != "" {
					okSeed = false
				}
			}
			c.Check(okSeed, "R03.4", key, pos, "seeded from curPkg.GarbleActionID, or flagSeed.bytes when -seed is given", "the generator's seed is not (only) the package's GarbleActionID / the -seed bytes: "+sl.Summary())
		} else {
			c.OK("R03.4", key, pos, "wraps the seeded source")
		}
	}
	// the generator is stored in tf.obfRand and nowhere else
	stores := 0
	w.forEachInstr(func(fn *ssa.Function, in ssa.Instruction) {
		if st, ok := in.(*ssa.Store); ok {
			if fa, ok := st.Addr.(*ssa.FieldAddr); ok && fieldName(fa.X.Type(), fa.Field) == "obfRand" {
				stores++
				c.Check(w.FuncName(fn) == "(*transformer).transformCompile", "R03.4", "store to transformer.obfRand in "+w.FuncName(fn), w.Pos(st.Pos()), "set once per compile", "obfRand is replaced outside transformCompile")
			}
		}
	})
	if stores == 0 {
		c.Bad("R03.4", "store to transformer.obfRand", "", "the seeded generator is no longer kept in transformer.obfRand")
	}
}

// positiveControlD3 runs the detector's D3 matcher on a tiny in-memory program.
func positiveControlD3() (bool, string) {
	fn, err := buildSnippet(`package p
func f(ch chan int) int {
	go func() { ch <- 1 }()
	select {
	case v := <-ch:
		return v
	default:
		return 0
	}
}`, "f")
	if err != nil {
		return false, err.Error()
	}
	goes, sels := 0, 0
	for _, b := range fn.Blocks {
		for _, in := range b.Instrs {
			switch in.(type) {
			case *ssa.Go:
				goes++
			case *ssa.Select:
				sels++
			}
		}
	}
	if goes != 1 || sels != 1 {
		return false, fmt.Sprintf("found %d go statements and %d selects in the control", goes, sels)
	}
	return true, ""
}
