#!/bin/bash
# Run selected tests of garble's own suite on a scratch worktree with a seeded patch applied,
# in the baseline's environment (default go, toolchain switch to the module-cache go1.26.2):
#   seed_onetest.sh <ID> <dir with patch.diff> '<go test -run regex>'
set -u
ID=$1; SRC=$(readlink -f "$2"); RX=$3
W=/tmp/sc/$ID-one; rm -rf "$W"; mkdir -p /tmp/sc
git -C /repo worktree prune
git -C /repo worktree add --detach -q "$W" HEAD || exit 2
trap 'git -C /repo worktree remove --force "$W" 2>/dev/null; rm -rf "$W" /tmp/test; git -C /repo worktree prune' EXIT
git -C "$W" apply "$SRC/patch.diff" || exit 2
(cd "$W" && env -u GOTOOLCHAIN -u GOSUMDB -u GOFLAGS -u GOWORK GOPROXY=off go test -mod=mod -vet=off -count=1 -timeout 25m -run "$RX" . 2>&1 | tail -15)
