#!/bin/bash
# Confirm a seeded change independently of whoever wrote it:
#   seed_confirm.sh <ID> <dir with patch.diff, demo.sh, demo/>  [notests]
# Creates a scratch worktree of /repo under /tmp/sc/<ID>, builds garble with and
# without the patch, runs the demonstration against both, runs the pinned test suite
# on the patched tree, prints a verdict, and removes the worktree and its build output.
set -u
ID=$1; SRC=$(readlink -f "$2"); MODE=${3:-tests}
ORIGPATH=$PATH
export GOFLAGS=-mod=mod GOPROXY=off GOSUMDB=off GOTOOLCHAIN=local GOWORK=off
export PATH=/opt/veriftools/go1.26.8/bin:$PATH
W=/tmp/sc/$ID; rm -rf "$W" "$W-work"; mkdir -p /tmp/sc "$W-work"
git -C /repo worktree prune
git -C /repo worktree add --detach -q "$W" HEAD || exit 2
cleanup() { git -C /repo worktree remove --force "$W" 2>/dev/null; rm -rf "$W" "$W-work" /tmp/test; git -C /repo worktree prune; }
trap cleanup EXIT
(cd "$W" && go build -o "$W-work/garble-base" .) || { echo "CONFIRM $ID: base build failed"; exit 2; }
git -C "$W" apply "$SRC/patch.diff" || { echo "CONFIRM $ID: patch does not apply"; exit 2; }
if git -C "$W" diff --name-only | grep -E '_test\.go$|^testdata/' ; then echo "CONFIRM $ID: patch edits tests"; exit 1; fi
(cd "$W" && go build ./... && go vet ./... && go build -o "$W-work/garble-mut" .) || { echo "CONFIRM $ID: patched tree does not build/vet"; exit 1; }
echo "== demo on base"; (cd "$SRC" && timeout 1200 bash ./demo.sh "$W-work/garble-base") >"$W-work/demo-base.log" 2>&1; B=$?
echo "== demo on patched"; (cd "$SRC" && timeout 1200 bash ./demo.sh "$W-work/garble-mut") >"$W-work/demo-mut.log" 2>&1; M=$?
echo "demo exit: base=$B patched=$M"
tail -5 "$W-work/demo-base.log" | sed 's/^/  base| /'; tail -8 "$W-work/demo-mut.log" | sed 's/^/  mut | /'
T=skipped
if [ "$MODE" = tests ]; then
  rm -rf /tmp/test
  # the pinned suite runs like the baseline does: default go on PATH, toolchain switch to the
  # go1.26.2 in the module cache (TestScript/gotoolchain depends on it), no GOSUMDB=off
  (cd "$W" && env -u GOTOOLCHAIN -u GOSUMDB -u GOFLAGS -u GOWORK PATH="$ORIGPATH" GOPROXY=off \
     go test -mod=mod -json -vet=off -count=1 -timeout 25m ./... ) >"$W-work/test.json" 2>"$W-work/test.err"
  T=$(python3 - "$W-work/test.json" <<'EOF'
import json,sys
base=json.load(open('/root/.vp/BASELINE.json'))
want=set(base['stable_pass'])
res={}
for line in open(sys.argv[1]):
    try: e=json.loads(line)
    except Exception: continue
    if e.get('Action') in('pass','fail','skip') and e.get('Test'):
        res[e['Package']+'::'+e['Test']]=e['Action']
bad=sorted(t for t in want if res.get(t)!='pass')
print('pinned suite: %d/%d pass'%(len(want)-len(bad),len(want)), 'FAILED: '+', '.join(bad) if bad else '')
EOF
)
  echo "$T"
fi
V=REJECT
if [ $B -eq 0 ] && [ $M -ne 0 ]; then case "$T" in *"65/65 pass"*|skipped) V=CONFIRMED;; esac; fi
echo "CONFIRM $ID: $V (demo base=$B patched=$M; $T)"
mkdir -p /tmp/sc/logs; cp "$W-work/demo-base.log" /tmp/sc/logs/$ID.demo-base.log; cp "$W-work/demo-mut.log" /tmp/sc/logs/$ID.demo-mut.log
[ "$V" = CONFIRMED ]
