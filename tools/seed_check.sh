#!/bin/bash
# Run the property checks against a seeded change:
#   seed_check.sh <dir with patch.diff> [ID ...]      (default: all 20 checks, quick tier)
# Applies the patch to /repo's working tree, runs the checks, and ALWAYS reverts.
set -u
SRC=$(readlink -f "$1"); shift
IDS=${*:-$(seq -f 'C%02g' 1 20)}
cd /verif
if [ -n "$(git -C /repo status --short)" ]; then echo "/repo is dirty; refusing"; exit 2; fi
git -C /repo apply "$SRC/patch.diff" || { echo "patch does not apply"; exit 2; }
trap 'git -C /repo checkout -- . ; git -C /repo status --short; git -C /verif checkout -- evidence; rm -rf /verif/evidence/violations' EXIT
mkdir -p /tmp/sc/ev
caught=""
for id in $IDS; do
  out=$(./run.sh check "$id" quick 2>&1); rc=$?
  if [ $rc -ne 0 ]; then
    caught="$caught $id"
    echo "== $id exit $rc"
    cp -r /verif/evidence/violations /tmp/sc/ev/$(basename "$SRC")-$id 2>/dev/null
    echo "$out" | grep -E 'VIOLATION|violation|undecided|UNDECIDED|panic|error' | head -12
  fi
done
echo "SEEDCHECK $(basename "$SRC"): caught by:${caught:- NONE}"
