#!/bin/bash
# Like seed_check.sh, but on a scratch worktree that mirrors /repo's working tree
# (HEAD plus uncommitted changes), so that /repo itself is not touched:
#   seed_check_wt.sh <dir with patch.diff> [ID ...]
set -u
SRC=$(readlink -f "$1"); shift
IDS=${*:-$(seq -f 'C%02g' 1 20)}
W=/tmp/sc/chk-$$
git -C /repo worktree prune
git -C /repo worktree add --detach -q "$W" HEAD || exit 2
trap 'git -C /repo worktree remove --force "$W" 2>/dev/null; rm -rf "$W"; git -C /repo worktree prune; git -C /verif checkout -- evidence; rm -rf /verif/evidence/violations' EXIT
if [ -n "$(git -C /repo status --short)" ]; then git -C /repo diff | git -C "$W" apply || exit 2; fi
git -C "$W" apply "$SRC/patch.diff" || { echo "patch does not apply"; exit 2; }
cd /verif
caught=""
for id in $IDS; do
  out=$(VERIF_REPO="$W" ./run.sh check "$id" quick 2>&1); rc=$?
  if [ $rc -ne 0 ]; then
    caught="$caught $id"
    echo "== $id exit $rc"
    echo "$out" | grep -E 'violated|undecided|panic|rror' | head -8 | cut -c1-320
  fi
done
echo "SEEDCHECK $(basename "$SRC"): caught by:${caught:- NONE}"
