#!/usr/bin/env python3
"""Regenerate the rule table of DESIGN.md section 3 from /verif/evidence/C*.json."""
import glob, json, re
out = ["| Property | Rule | What every instance must satisfy | Instances today / floor |", "|---|---|---|---|"]
for f in sorted(glob.glob('/verif/evidence/C*.json')):
    e = json.load(open(f))
    for r in e['coverage']['rules']:
        out.append(f"| {e['property_id']} | {r['id']} | {r['title']} | {r['instances']} / {r['floor']} |")
block = '<!-- rules-table:begin -->\n' + '\n'.join(out) + '\n<!-- rules-table:end -->'
p = '/verif/DESIGN.md'
s = open(p).read()
if '<!-- rules-table:begin -->' in s:
    s = re.sub(r'<!-- rules-table:begin -->.*<!-- rules-table:end -->', lambda _: block, s, flags=re.S)
else:
    a = s.index('| Property | Rule | What every instance must satisfy')
    b = s.index('\n\n', a)
    s = s[:a] + block + s[b:]
open(p, 'w').write(s)
print('rules:', len(out) - 2)
