#!/usr/bin/env python3
"""Regenerate the table of independently seeded changes in DESIGN.md (section 7) from
/verif/seeded/*/meta.json. The table sits between the two marker lines."""
import glob, json, os, re
rows = ["| Seed | Property | Change (by an independent sub-agent) | Needs, to manifest | Caught by | Missed by / what I did |",
        "|---|---|---|---|---|---|"]
n = caught = 0
for d in sorted(glob.glob('/verif/seeded/*/')):
    m = json.load(open(d + 'meta.json'))
    n += 1
    cb = '; '.join(m.get('caught_by') or []) or '**nothing**'
    if m.get('caught_by'):
        caught += 1
    mb = '; '.join(m.get('missed_by') or [])
    st = m.get('strengthened')
    last = mb + ((' — ' if mb else '') + st if st else '')
    esc = lambda s: s.replace('|', '\\|').replace('\n', ' ')
    rows.append('| `seeded/%s` | %s | %s | %s | %s | %s |' % (os.path.basename(d.rstrip('/')), m['property'], esc(m['change']), esc(m['needs']), esc(cb), esc(last or '—')))
rows.append('')
rows.append('%d seeded changes kept, %d caught by at least one rule on the current checker.' % (n, caught))
block = '<!-- seeded-table:begin -->\n' + '\n'.join(rows) + '\n<!-- seeded-table:end -->'
p = '/verif/DESIGN.md'
s = open(p).read()
if 'SEEDED_TABLE' in s:
    s = s.replace('SEEDED_TABLE', block)
else:
    s = re.sub(r'<!-- seeded-table:begin -->.*<!-- seeded-table:end -->', lambda _: block, s, flags=re.S)
open(p, 'w').write(s)
print('table:', n, 'seeds,', caught, 'caught')
