#!/usr/bin/env python3
"""Keep a confirmed seeded change under /verif/seeded/<name>/:
    seed_keep.py <name> <out dir> <meta json string>
copies patch.diff, demo.sh, demo/, NOTES.md (as notes-by-author.md) and writes meta.json."""
import json, os, shutil, sys
name, src, meta = sys.argv[1], sys.argv[2], json.loads(sys.argv[3])
dst = f'/verif/seeded/{name}'
if os.path.exists(dst):
    shutil.rmtree(dst)
os.makedirs(dst)
for f in ('patch.diff', 'demo.sh'):
    shutil.copy(os.path.join(src, f), dst)
if os.path.isdir(os.path.join(src, 'demo')):
    shutil.copytree(os.path.join(src, 'demo'), os.path.join(dst, 'demo'))
if os.path.exists(os.path.join(src, 'NOTES.md')):
    shutil.copy(os.path.join(src, 'NOTES.md'), os.path.join(dst, 'notes-by-author.md'))
json.dump(meta, open(os.path.join(dst, 'meta.json'), 'w'), indent=1, ensure_ascii=False)
print('kept', dst)
