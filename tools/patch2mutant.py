#!/usr/bin/env python3
"""Turn a seeded change (unified diff against /repo) into an overlay mutant entry of
mutants.json, so that ./run.sh selftest keeps exercising it without touching /repo.

    patch2mutant.py <name> <property> <expect_rule> <patch.diff> "<note>"

Every hunk becomes one (find, replace) edit; the first is the mutant's main edit,
the others go under "more". Prints the JSON entry; with --add appends it to
/verif/mutants.json (replacing an entry of the same name)."""
import json, re, sys

def hunks(diff):
    cur_file, out, h = None, [], None
    for line in diff.splitlines():
        if line.startswith('+++ '):
            cur_file = line[4:].split('\t')[0]
            cur_file = re.sub(r'^b/', '', cur_file)
            continue
        if line.startswith('--- ') or line.startswith('diff ') or line.startswith('index '):
            continue
        if line.startswith('@@'):
            h = {'file': cur_file, 'old': [], 'new': []}
            out.append(h)
            continue
        if h is None:
            continue
        if line.startswith('\\'):
            continue
        tag, text = (line[:1], line[1:]) if line else (' ', '')
        if tag == ' ':
            h['old'].append(text); h['new'].append(text)
        elif tag == '-':
            h['old'].append(text)
        elif tag == '+':
            h['new'].append(text)
    return out

def main():
    args = [a for a in sys.argv[1:] if a != '--add']
    add = '--add' in sys.argv
    name, prop, rule, patch, note = args
    hs = hunks(open(patch).read())
    edits = [{'file': h['file'], 'find': '\n'.join(h['old']), 'replace': '\n'.join(h['new'])} for h in hs]
    for e in edits:
        src = open('/repo/' + e['file']).read()
        if src.count(e['find']) != 1:
            sys.exit('hunk context is not unique in %s (%d matches)' % (e['file'], src.count(e['find'])))
    first = edits[0]
    ent = {'name': name, 'property': prop, 'file': first['file'], 'find': first['find'], 'replace': first['replace'],
           'expect_rule': rule, 'note': note}
    if len(edits) > 1:
        ent['more'] = edits[1:]
    if add:
        ms = json.load(open('/verif/mutants.json'))
        ms = [m for m in ms if m['name'] != name] + [ent]
        json.dump(ms, open('/verif/mutants.json', 'w'), indent=1, ensure_ascii=False)
        print('added', name, 'edits:', len(edits))
    else:
        print(json.dumps(ent, indent=1))

main()
