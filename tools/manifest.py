#!/usr/bin/env python3
"""Writes /verif/MANIFEST.json from the table below and validates it.
Run after adding or removing a claimed property."""
import json, subprocess, sys, os
V = os.path.dirname(os.path.dirname(os.path.abspath(__file__)))
props = [json.loads(l) for l in open(os.path.join(V, "properties.jsonl"))]

NOTE = ("Trusted: go/types, go/ssa, go/packages as used by the checker; the Go toolchain sources under GOROOT match the toolchain binaries; "
        "nothing is built or run, so the verdict is about the structure of /repo's source, not about any produced binary.")

# id -> (what the check decides / does not decide, technique, design section)
claims = {
 "C07": ("Decides on SSA, for every Cache.GetFile call site and for the linker reuse in PatchLinker, that a missing/short entry takes the recompute path: "
         "GetFile errors are only compared with nil and miss-only code never fails; computePkgCache recurses into, merges and stores missing dependency entries; "
         "the linker is reused only under stamp-and-file guards that bind the file's content (its size is part of the stamp); go-internal's GetFile compares sizes; garble never decides on the index-only Cache.Get; the entry is stored under the id it is looked up with. "
         "Decides this clause, not that the rebuilt binary equals a cold build.",
         "SSA dominance + must-pass-through + backward dependence slices over go/ssa", "4 C07"),
 "C19": ("Decides on SSA that every filesystem effect in garble (28 create/write/mkdir/remove sites, 12 spawned commands) is rooted in garble's own temp dir, cache, "
         "-debugdir target or profile dir; that removals of environment-named paths are dominated by this process's own Setenv/Unsetenv; that clean-up is deferred "
         "before any return after toolexecCmd and no os.Exit is reachable from mainErr; and that every path to a -debugdir write passes an ownership edge. "
         "Decides these clauses, not the behaviour of spawned tools.",
         "filesystem-effect enumeration with path-root provenance (interprocedural backward slice), dominance and path enumeration on go/ssa", "4 C19"),
 "C20": ("Decides by table and sibling comparison: garble's booleanFlags against every flag.FlagSet registration of the pinned toolchain's cmd/go/internal/{work,test,run,base} "
         "(type-checked from GOROOT source; 68 flags), forwardBuildFlags against the build flags registered by the Add*Flags helpers, the two splitters against each other "
         "(table, '=' rule, spelling normalisation), rxGarbleFlag against garble's own FlagSet, and on SSA that the go command ends with the user's flags and packages in order and unmodified. "
         "Decides these agreements, not the acceptance of any concrete command line.",
         "table-vs-table and site-vs-site agreement over go/types + go/ssa, including the toolchain's own cmd/go source", "4 C20"),
 "C16": ("Exhaustive abstract interpretation of the SSA of hashWithCustomSalt and its byte helpers: all 64 first base64 symbols x 3 name classes x 256 length bytes, later cells as byte sets with "
         "pointwise loop summarisation (cross-position accesses are undecided, never a pass): length 6..12 within a fully encoded buffer, [A-Za-z_][A-Za-z0-9_]*, export status preserved; "
         "plus purity (globals, external calls, hasher protocol, result copied) and the closed set of callers. Axioms: SHA-256 bytes arbitrary, base64 writes alphabet symbols. "
         "Decides well-formedness, export preservation and purity for all inputs; does not decide collision freedom or keyword clashes.",
         "abstract interpretation (byte-set domain, exhaustive case split) of go/ssa plus global/effect enumeration", "4 C16"),
 "C03": ("Decides the determinism-effect clauses over the call-graph region that computes compiler/assembler/linker input (about 320 functions) plus the top-level preparation (about 55): "
         "no process-global or environmental randomness/time (clock values must provably end only in log.Print*), every unordered iteration proved harmless (collected-then-sorted, slices.Sorted) "
         "or in a reviewed table keyed by function+ranged expression+body effects, no goroutines/select (with a positive control), and a single seeded math/rand generator created in transformCompile. "
         "Shares R07.2 with C07 (a dependency's reflection facts are recomputed when its cache entry is missing, whatever the cache state). Decides these necessary conditions, not equality of any two binaries nor determinism of dependencies and toolchain.",
         "effect analysis over a conservative module call graph on go/ssa (reachability, loop-body effect fingerprints, purity and sort-dominance provers)", "4 C03"),
 "C06": ("Decides the cache-key clauses: every configuration item (flag, sharedCache field, environment variable, cross-package option) read in the tool-input region (about 320 functions) either influences "
         "the bytes addGarbleToHash writes (appendFlags specialised for forBuildHash=true by boolean constant propagation; data and control influence on live writes, including range-over-func bodies) "
         "or is exempt with a reason; cache ids are GarbleActionID or domain-separated derivations with matching writers and readers; GarbleActionID has one definition; -V=full is answered through addGarbleToHash; "
         "the linker stamp is written and compared with the same operands and covers every patch file. Also: a value compiled into package P and derived from a GarbleActionID uses P's own action ID (the pclntab magic follows internal/abi); under -literals every -X variable name enters the hash without a filter; the key of a package's cache entry, which holds its dependencies' obfuscated names, depends on the dependencies' action IDs. Decides these clauses, not the completeness of cmd/go's own action IDs.",
         "configuration read-set vs. hashed-set analysis (call-graph region, SCCP-style specialisation, backward slices) on go/ssa", "4 C06"),
 "C05": ("Decides the operator-algebra and pairing clauses: the encode table (evalOperator) and the emitted-decode table (operatorToReversedBinaryExpr) are read off SSA and proved inverse exhaustively over 256x256 byte pairs per token; "
         "every operator randOperator draws is in both tables and unknown ones panic; every draw reaches one encode and its matching emitted decode; the ext-key statement list is reversed; the size window [8,2048] is used by all three guards; "
         "the obfuscator skips exactly nosplit/const/-X subtrees and constant expressions of a non-string kind (array lengths must stay constant); an obfuscated []byte literal is clipped to cap == len. States plainly that it decides this clause, not decode(encode(x)) = x for any obfuscator.",
         "table extraction from go/ssa + exhaustive evaluation over bytes; def-use pairing of operator draws", "4 C05"),
 "C12": ("Decides what each name's salt may depend on, by constant-propagating flagSeed.present() = true/false through the salt functions and slicing the salt handed to hashWithCustomSalt: seeded -> import path (+separator) / struct identity only and no configuration read "
         "by anything reachable; unseeded -> GarbleActionID / addGarbleToHash(struct identity) with addGarbleToHash covering binary id, GOGARBLE, -literals, -tiny, controlflow; hash input salt,seed,name; runtime magic/entry key split the same way; short seeds rejected; the decoded seed is stored and hashed whole (no slicing). "
         "Decides dependencies, not that names actually differ.",
         "SCCP-style specialisation + backward dependence slices + configuration read sets on go/ssa", "4 C12"),
 "C14": ("Decides the guard clauses: ToObfuscate has a single decision point behind the runtime/cgo/fips140/empty exclusions; the no-match rejection is exactly mainBuild && !anyToObfuscate && !matches(runtime) and dominates every success return; "
         "all 21 hashWithPackage and 5 hashWithStruct call sites, literals.Obfuscate and printFile's directives run only under ToObfuscate of their own package value (access-path equality; closures at creation, helpers at all call sites) or are in the reviewed list; GOGARBLE is hashed. "
         "anyToObfuscate counts only packages of the user's build, not the linknamed std packages folded into the listing. Known finding F20: source directories and assembly file names are hashed for non-selected packages too, so their positions are not verbatim. Decides these clauses, not the behaviour of mixed programs.",
         "dominance by edge facts over access paths (go/ssa), interprocedural through closures and helpers", "4 C14"),
 "C17": ("Decides lock typestate of the patched linker (Lock dominates stamp read/patch/build/stamp write; error returns leave the flag clear so the deferred function unlocks; success returns set it and return unlock; no early unlock; caller defers unlock before running the linker), "
         "that every file visible to other garble processes is created O_EXCL/unique, under the linker lock, or via the cache API (one reviewed in-place rewrite), that the directory shared with toolexec children is a fresh MkdirTemp per command, that the shared linker is built with the target variables overridden after the inherited environment, and that garble has no goroutines (positive control). Decides these clauses, not any interleaving.",
         "typestate/dominance on go/ssa + filesystem-effect enumeration", "4 C17"),
 "C18": ("Decides ordering clauses: stamp written only on the nil edge of buildLinker; reuse guarded by stamp+file+size; every path to buildLinker has a mismatching stamp or removes stamp first (path enumeration, const-trip loops); "
         "the shared dir is a fresh MkdirTemp per command; checkVersion turns no stamp content into an error; all writes under the cache dir are PutBytes or the linker under its lock. Decides these clauses, not the effect of a kill at any instant.",
         "path enumeration and dominance on go/ssa + filesystem-effect enumeration", "4 C18"),
 "C08": ("Decides coverage and plumbing clauses: the reflected-type walker's component coverage against what reflect.Type can navigate (Elem x5, map Key, struct fields, func params/results, Named underlying, Alias rhs); "
         "CopyFrom merges every pkgCache field and the seed table names reflect.TypeOf/ValueOf; coverage floors of the five SSA switches of the analysis (25 cases); the fix-point has no pruning state and its progress measure counts parameter sets; "
         "name pairs are emitted sorted; the abi patch anchor occurs exactly once in the pinned toolchain's internal/abi/type.go and the linkname names agree; shares R07.2 with C07 (facts of a dependency that can reach reflect transitively are recomputed on a cache miss, merged and stored); the method-signature heuristic marks unnamed struct types only; the type walker stops early only on visited, universe and already-recorded types. Decides these clauses, not the soundness of the taint heuristic over all flows.",
         "component/field/case coverage extraction from go/ssa + text-level agreement with GOROOT source", "4 C08"),
 "C13": ("Decides single-source clauses: garble map takes every name from obfuscatedObjectName and every path from obfuscatedImportPath (no hashing of its own); every transformer field the naming decision transitively reads is set by "
         "transformerForListedPackage; build/map/reverse fill the package list through toolexecCmd -> appendListedPackages and type-check with <pkg>.ImportPath and importerForPkg(<pkg>); map skips objects only for the documented reasons and takes the same pre-steps as the build's identifier visitor (blank names, embedded fields named after their type); reverse has a case for every kind of object map lists (funcs, types, package-level vars, fields, interface methods). "
         "Decides these clauses, not equality of compile-time and go-list type information.",
         "call-graph field-read coverage and provenance slices on go/ssa", "4 C13"),
 "C15": ("Decides dependency clauses: the struct case of the bundled identity hasher calls only NumFields/Field/Name/Anonymous (no Tag, Pos, Pkg, field types), nothing reachable from it iterates a map or reads configuration; no naming exception depends on the declaring package beyond the four std packages matched by import path (shared R02.8); "
         "all 4 hashWithStruct sites pass (fieldToStruct[o], o) with o an origin field, or a field enumerated from the same struct value; recordFieldToStruct skips instantiated structs and descends through Origin().Underlying(). "
         "Decides these clauses, not Identical(t,t') => equal salt for every type shape.",
         "closed-set call check on a type-switch region + operand provenance on go/ssa", "4 C15"),
 "C10": ("Decides the writer cut: garble's strip table is obtained by interpreting the AST of stripRuntime for every (file, function) of the pinned toolchain's runtime package (type-checked from GOROOT source, ~2800 functions, SSA); on the call graph with "
         "emptied bodies removed, constant-false blocks pruned and print builtins redirected, no function entered from outside Go source other than the print primitives can reach write(2, ...), and no primitive is emptied; required strips exist and are validated; "
         "print/println are redirected to an empty variadic function by a walk that prunes no subtree except below a renamed call and covers the whole file; the linker patch reads the variable mainErr sets under -tiny; positions are blank under -tiny. Assumes assembly and cgo C code do not write to fd 2. Decides this clause, not exit status or recover values.",
         "AST interpretation of the strip table + reachability on go/ssa of GOROOT's runtime", "4 C10"),
 "C11": ("Decides exhaustiveness clauses: every concrete ssa.Instruction of the resolved x/tools (41) is converted, rejected by a failing default, or skipped for a reviewed reason; terminator, type and constant switches reject unknown kinds; "
         "every exported field of each handled instruction (60) is read or listed as meaningless; the converter reads FreeVars, AnonFuncs, Blocks, Signature and Recover of the function; directive values are bounded and unknown hardening names panic; "
         "trash guards draw from operators for which constant.Compare is false; phi values are staged (predecessors assign a staging variable, the phi block copies it); block splitting repairs Preds in every block and never cuts inside the leading phis. Decides these clauses, not semantic preservation of flattening/splitting/junk/trash/hardening.",
         "type-switch case extraction, operand/field coverage and reachability on go/ssa", "4 C11"),
 "C01": ("Decides agreement clauses between garble's renaming outside Go syntax and its single naming decision: hash funnel; the four out-of-syntax rename sites test compilerIntrinsics on the values they rename; only three functions hash a package's ImportPath "
         "and all eight emitters take the path from obfuscatedImportPath; the linker patches read the variables garble exports, the entry-offset formula has the same operator tree on both sides and the patched anchors exist in the pinned toolchain; "
         "all eleven documented naming exceptions are present (complete name lists); -X is duplicated under obfuscated path and name; qualified symbols are hashed with the package their path names; both -X parsers split at the last dot before '=' as cmd/link does. Decides these clauses, not program equivalence.",
         "site-vs-site and table-vs-text agreement over go/ssa, go/ast and GOROOT sources", "4 C01"),
 "C02": ("Decides must-pass-through and closed-set clauses: linker flags (-buildid=, -w, -s, buildVersion, importcfg) and compile flags (-dwarf=false, -p, -importcfg, -trimpath with the temp dir first) are data dependencies of every success return; "
         "-trimpath/-buildvcs=false reach both go invocations; the per-file pipeline goes through transformDirectives, transformGoFile, the package rename and printFile; the default //line header precedes all copied bytes and both comment filters keep only //go:; "
         "the importcfg has only two line kinds; asm files get hashed names; every 'keep the name' and 'skip the identifier' exit is a documented exception, each std exception tied to its import path; the method-signature reflection heuristic marks unnamed struct types only (shared R08.6). Decides these clauses, not the bytes of any binary.",
         "backward dependence of success returns, dominance and exit classification on go/ssa", "4 C02"),
 "C09": ("Decides coverage clauses: literals.Obfuscate runs exactly under flagLiterals && ToObfuscate and its result is returned; the string rewrite is keyed on type information (not narrowed to a syntactic node kind) and replaces the node; "
         "byte composites are handled as &lit and plain, arrays and slices; both paths test [8,2048]; skips are exactly nosplit/const/-X/constant non-string expressions; the seed is read only by twelve reviewed functions and appendFlags is used only for the hash and -toolexec. "
         "Decides these clauses, not which expressions go/types marks constant nor the bytes of any binary.",
         "edge-fact and provenance checks on go/ssa; configuration read-set for the seed", "4 C09"),
 "C04": ("Decides sibling agreement between the build (printFile) and reverse (commandReverse): same format constant, Offset of the Position of CallExpr.Pos(), .go suffix, and the same derivation of the file-name operand (known finding F11: cgo packages); a call's line directive must be anchored at a token of the call itself (known finding F15: multi-line call chains are not reversed); "
         "names via hashWithPackage, fields via hashWithStruct, asm files with .s; every replacement pair is (hashed, original) and X.go:1 precedes X.go; reverseContent writes every line it reads before looking at the read error; exit status 1 exactly under !modified; "
         "all listed packages are visited and only !ToObfuscate ones skipped. Decides these agreements, not that compile-time offsets equal those of a fresh parse nor the round trip of any trace.",
         "site-vs-site operand provenance comparison and dominance on go/ssa", "4 C04"),
}

checks = []
for p in props:
    pid = p["id"]
    if pid not in claims:
        continue
    text, tech, ref = claims[pid]
    checks.append({
        "property_id": pid,
        "quick_cmd": f"./run.sh check {pid} quick",
        "thorough_cmd": f"./run.sh check {pid} thorough",
        "evidence_file": f"/verif/evidence/{pid}.json",
        "replay_cmd_template": "cat {path}",
        "engine": "garbleverif",
        "level_claimed": {"category": "other", "text": text, "design_ref": "DESIGN.md section " + ref},
        "level_note": NOTE,
        "technique": "static analysis: " + tech,
    })

na_reason = "check not built yet (work in progress; DESIGN.md section 4 names the structural clause that will be claimed)"
manifest = {
    "version": 1,
    "setup_cmd": "./run.sh setup",
    "hooks": {
        "guard": "verif",
        "enable": "none needed: the checker analyses /repo's source; no hook commits exist",
        "baseline_off_cmd": "cd /repo && go test -vet=off -count=1 -timeout 25m ./...",
        "source_commits": [],
        "add_only": True,
    },
    "engines": [{"name": "garbleverif", "path": "/verif/checker", "serves_properties": [c["property_id"] for c in checks],
                 "kind_free_text": "repository-specific static analyser over go/packages + go/ssa (x/tools v0.50.0, vendored), one process per property"}],
    "checks": checks,
    "not_applicable": [{"property_id": p["id"], "reason": na_reason} for p in props if p["id"] not in claims],
    "notes": "All claims are at level 'other': each check decides named structural necessary conditions of its property on /repo's current source and says so; see DESIGN.md.",
}
json.dump(manifest, open(os.path.join(V, "MANIFEST.json"), "w"), indent=1)
try:
    import jsonschema
    jsonschema.validate(manifest, json.load(open("/root/.vp/MANIFEST.schema.json")))
    print("MANIFEST.json valid;", len(checks), "checks")
except ImportError:
    print("MANIFEST.json written (jsonschema not available to validate)")
