#!/bin/bash
# Entry point for every /verif command: pins the toolchain environment.
#   run.sh setup                     build the checker (offline, vendored deps)
#   run.sh check <ID> [quick|thorough]
#   run.sh all [quick|thorough]      every claimed property
#   run.sh dump <func>...            debugging: SSA of a garble function
#   run.sh selftest [regex]          mutant battery (checker regression test)
set -u
VERIF="$(cd "$(dirname "${BASH_SOURCE[0]}")" && pwd)"
export GOPROXY=off GOSUMDB=off GOTOOLCHAIN=local GOWORK=off
export PATH=/opt/veriftools/go1.26.8/bin:$PATH
BIN="$VERIF/bin/garbleverif"

build() {
	mkdir -p "$VERIF/bin"
	(cd "$VERIF/checker" && GOFLAGS=-mod=vendor go build -o "$BIN" .) || { echo "ERROR: building the checker failed"; exit 2; }
}

needbuild() {
	[ -x "$BIN" ] || return 0
	[ -n "$(find "$VERIF/checker" -name '*.go' -newer "$BIN" -not -path '*/vendor/*' -print -quit)" ] && return 0
	return 1
}

cmd="${1:-}"; shift || true
case "$cmd" in
setup)
	build
	;;
check)
	id="$1"; tier="${2:-${VERIF_TIER:-quick}}"
	needbuild && build
	exec "$BIN" check "$id" -tier "$tier" -repo "${VERIF_REPO:-/repo}" -verif "$VERIF"
	;;
all)
	tier="${1:-quick}"
	needbuild && build
	rc=0
	for id in $(jq -r '.checks[].property_id' "$VERIF/MANIFEST.json"); do
		"$BIN" check "$id" -tier "$tier" -repo "${VERIF_REPO:-/repo}" -verif "$VERIF" || rc=1
	done
	exit $rc
	;;
dump)
	needbuild && build
	exec "$BIN" dump "$@"
	;;
selftest)
	# mutant battery: single-edit variants of /repo (through an overlay, nothing is
	# written to /repo), one process each; asserts that each is detected.
	needbuild && build
	pat="${1:-}"
	out=$("$BIN" mutant -repo "${VERIF_REPO:-/repo}" -verif "$VERIF" -list | grep -E "${pat:-.}" | xargs -P 6 -I{} "$BIN" mutant -repo "${VERIF_REPO:-/repo}" -verif "$VERIF" {} 2>&1 | sort)
	echo "$out"
	echo "$out" | awk '{c[$1]++} END {for (k in c) printf "%s=%d ", k, c[k]; print ""}'
	echo "$out" | grep -qE '^(MISSED|BROKEN|ERROR)' && exit 1
	exit 0
	;;
*)
	echo "usage: run.sh setup | check <ID> [quick|thorough] | all [tier] | dump <func>..." >&2
	exit 2
	;;
esac
